//go:build linux

package main

// loadhist: executes load histories against the real LoadFilter / Supported on the running kernel, one fresh
// child process per history (a loaded filter cannot be removed), and reports after every operation the result,
// the seccomp(2) calls seen by hook H2, the status of every task and which filters answer the probe system call.
// See /verif/DESIGN.md (C09, C10, C11) and /verif/lib/loaderchecks.py for the history language.

import (
	"bufio"
	"encoding/hex"
	"errors"
	"fmt"
	"os"
	"os/exec"
	"runtime"
	"sort"
	"strconv"
	"strings"
	"sync"
	"sync/atomic"
	"syscall"
	"time"
	"unsafe"

	"golang.org/x/net/bpf"

	seccomp "github.com/elastic/go-seccomp-bpf"
	"github.com/elastic/go-seccomp-bpf/arch"
)

func init() {
	commands["loadhist"] = loadhistParent
	commands["loadhist-child"] = loadhistChild
}

// ------------------------------------------------------------------------------------------------ parent
func loadhistParent() {
	jobs := 8
	if len(os.Args) > 2 {
		if v, err := strconv.Atoi(os.Args[2]); err == nil && v > 0 {
			jobs = v
		}
	}
	type job struct {
		id, hist string
		out      []byte
	}
	var all []*job
	sc := bufio.NewScanner(os.Stdin)
	sc.Buffer(make([]byte, 1<<20), 1<<26)
	for sc.Scan() {
		ln := strings.TrimSpace(sc.Text())
		if ln == "" {
			continue
		}
		f := strings.SplitN(ln, " ", 2)
		if len(f) != 2 {
			continue
		}
		all = append(all, &job{id: f[0], hist: f[1]})
	}
	sem := make(chan struct{}, jobs)
	var wg sync.WaitGroup
	for _, j := range all {
		wg.Add(1)
		sem <- struct{}{}
		go func(j *job) {
			defer wg.Done()
			defer func() { <-sem }()
			cmd := exec.Command(os.Args[0], "loadhist-child")
			cmd.Env = append(os.Environ(), "VERIF_LOADHIST="+j.hist)
			var buf strings.Builder
			cmd.Stdout = &buf
			cmd.Stderr = &buf
			done := make(chan error, 1)
			if err := cmd.Start(); err != nil {
				j.out = []byte(fmt.Sprintf("X start %v\nZ %s exit=start\n", err, j.id))
				return
			}
			go func() { done <- cmd.Wait() }()
			status := "0"
			select {
			case err := <-done:
				if err != nil {
					status = strings.ReplaceAll(err.Error(), " ", "_")
				}
			case <-time.After(40 * time.Second):
				cmd.Process.Kill()
				<-done
				status = "timeout"
			}
			j.out = []byte(buf.String() + fmt.Sprintf("Z %s exit=%s\n", j.id, status))
		}(j)
	}
	wg.Wait()
	w := bufio.NewWriter(os.Stdout)
	defer w.Flush()
	for _, j := range all {
		fmt.Fprintf(w, "H %s %s\n", j.id, j.hist)
		w.Write(j.out)
	}
}

// ------------------------------------------------------------------------------------------------ child
type lworker struct {
	k        int
	kind     string
	tid      int
	ch       chan func()
	ready    bool // executes closures (actors; background threads after wake)
	first    []int
	hasFirst bool
	pipeW    int
	gone     bool
}

var (
	lhLoaded  int32 // set after the load(s): background threads probe once they see it
	lhWorkers = map[int]*lworker{}
	lhOrder   []int
	lhMu      sync.Mutex
	lhCalls   []seccomp.SeccompCallVerif
	lhNLoads  int
	lhStep    int
	lhOut     = bufio.NewWriter(os.Stdout)
	lhParked  int32
)

const probeBase = 1000

func probeSet() []int {
	var s []int
	for i := 1; i <= lhNLoads; i++ {
		_, _, e := syscall.RawSyscall(syscall.SYS_GETPPID, uintptr(probeBase+i), 0, 0)
		if e == syscall.EPERM {
			s = append(s, i)
		}
	}
	return s
}

func setStr(s []int) string {
	if len(s) == 0 {
		return "-"
	}
	var p []string
	for _, v := range s {
		p = append(p, strconv.Itoa(v))
	}
	return strings.Join(p, ",")
}

func rawSleep(ns int64) {
	ts := syscall.Timespec{Nsec: ns}
	syscall.RawSyscall(syscall.SYS_NANOSLEEP, uintptr(unsafe.Pointer(&ts)), 0, 0)
}

// blockSleep sleeps in nanosleep(2) as an ordinary (non-raw) system call: the thread is blocked in the kernel
// and the Go scheduler takes its P back, so many sleeping threads do not starve the others.
func blockSleep(ns int64) {
	ts := syscall.Timespec{Nsec: ns}
	syscall.Syscall(syscall.SYS_NANOSLEEP, uintptr(unsafe.Pointer(&ts)), 0, 0)
}

func (w *lworker) loop() {
	for f := range w.ch {
		f()
	}
}

func (w *lworker) do(f func()) {
	done := make(chan struct{})
	w.ch <- func() { f(); close(done) }
	<-done
}

func startWorker(k int, kind string) *lworker {
	w := &lworker{k: k, kind: kind, ch: make(chan func())}
	started := make(chan struct{})
	var pr int
	if kind == "pipe" {
		var p [2]int
		if err := syscall.Pipe(p[:]); err != nil {
			panic(err)
		}
		pr, w.pipeW = p[0], p[1]
	}
	go func() {
		runtime.LockOSThread()
		w.tid = syscall.Gettid()
		close(started)
		switch kind {
		case "actor":
		case "spin":
			for atomic.LoadInt32(&lhLoaded) == 0 {
			}
		case "sleep":
			for atomic.LoadInt32(&lhLoaded) == 0 {
				blockSleep(3e6)
			}
		case "pipe":
			var b [1]byte
			for {
				n, err := syscall.Read(pr, b[:])
				if n == 1 || (err != nil && err != syscall.EINTR) {
					break
				}
			}
			for atomic.LoadInt32(&lhLoaded) == 0 {
				blockSleep(2e5)
			}
		case "spawn":
			for i := 0; atomic.LoadInt32(&lhLoaded) == 0 && i < 40; i++ {
				go func() {
					runtime.LockOSThread()
					atomic.AddInt32(&lhParked, 1)
					select {}
				}()
				blockSleep(5e5)
			}
			for atomic.LoadInt32(&lhLoaded) == 0 {
				blockSleep(1e6)
			}
		}
		if kind != "actor" {
			// the first system calls this thread begins after it saw the flag
			w.first = probeSet()
			w.hasFirst = true
		}
		w.loop()
	}()
	<-started
	if kind == "actor" {
		w.ready = true
	}
	lhWorkers[k] = w
	lhOrder = append(lhOrder, k)
	fmt.Fprintf(lhOut, "K %d %d %s\n", k, w.tid, kind)
	return w
}

func readStatus(tid int) (int, int, int, bool) {
	b, err := os.ReadFile(fmt.Sprintf("/proc/self/task/%d/status", tid))
	if err != nil {
		return 0, 0, 0, false
	}
	sec, fil, nnp := -1, -1, -1
	for _, ln := range strings.Split(string(b), "\n") {
		switch {
		case strings.HasPrefix(ln, "Seccomp:"):
			sec, _ = strconv.Atoi(strings.TrimSpace(ln[len("Seccomp:"):]))
		case strings.HasPrefix(ln, "Seccomp_filters:"):
			fil, _ = strconv.Atoi(strings.TrimSpace(ln[len("Seccomp_filters:"):]))
		case strings.HasPrefix(ln, "NoNewPrivs:"):
			nnp, _ = strconv.Atoi(strings.TrimSpace(ln[len("NoNewPrivs:"):]))
		}
	}
	return sec, fil, nnp, sec >= 0 && fil >= 0 && nnp >= 0
}

func snapshot(step int) {
	ents, err := os.ReadDir("/proc/self/task")
	if err != nil {
		fmt.Fprintf(lhOut, "X readdir %v\n", err)
		return
	}
	var tids []int
	for _, e := range ents {
		if t, err := strconv.Atoi(e.Name()); err == nil {
			tids = append(tids, t)
		}
	}
	sort.Ints(tids)
	for _, t := range tids {
		if s, f, n, ok := readStatus(t); ok {
			fmt.Fprintf(lhOut, "T %d %d %d %d %d\n", step, t, s, f, n)
		}
	}
	for _, k := range lhOrder {
		w := lhWorkers[k]
		if w.ready && !w.gone {
			var s []int
			w.do(func() { s = probeSet() })
			fmt.Fprintf(lhOut, "P %d %d %s\n", step, w.tid, setStr(s))
		}
	}
}

func policyFor(kind string, idx int) seccomp.Policy {
	cond := func(v uint64) seccomp.NameWithConditions {
		return seccomp.NameWithConditions{Name: "getppid", Conditions: seccomp.ArgumentConditions{{Argument: 0, Operation: seccomp.Equal, Value: v}}}
	}
	switch kind {
	case "invalid":
		return seccomp.Policy{DefaultAction: seccomp.ActionAllow, Syscalls: []seccomp.SyscallGroup{{Action: seccomp.ActionErrno, Names: []string{"no_such_syscall_verif"}}}}
	case "oversize":
		var l []seccomp.NameWithConditions
		for j := 0; j < 1100; j++ {
			l = append(l, cond(uint64(500000+j)))
		}
		l = append(l, cond(uint64(probeBase+idx)))
		return seccomp.Policy{DefaultAction: seccomp.ActionAllow, Syscalls: []seccomp.SyscallGroup{{Action: seccomp.ActionErrno, NamesWithCondtions: l}}}
	case "nonames":
		// valid, default allow, a group without any name: nothing can tell this filter from no filter - except the task's filter count
		return seccomp.Policy{DefaultAction: seccomp.ActionAllow, Syscalls: []seccomp.SyscallGroup{{Action: seccomp.ActionErrno}}}
	case "allowall":
		// valid, every action is allow
		return seccomp.Policy{DefaultAction: seccomp.ActionAllow, Syscalls: []seccomp.SyscallGroup{{Action: seccomp.ActionAllow, NamesWithCondtions: []seccomp.NameWithConditions{cond(uint64(probeBase + idx))}}}}
	case "denyseccomp":
		// the filter answers seccomp(2) itself with EPERM from now on
		return seccomp.Policy{DefaultAction: seccomp.ActionAllow, Syscalls: []seccomp.SyscallGroup{{Action: seccomp.ActionErrno, Names: []string{"seccomp"}}}}
	case "denyprctl":
		// the filter answers prctl(2) with EPERM from now on
		return seccomp.Policy{DefaultAction: seccomp.ActionAllow, Syscalls: []seccomp.SyscallGroup{{Action: seccomp.ActionErrno, Names: []string{"prctl"}}}}
	case "denyseccomp38":
		// ... with ENOSYS (the action word carries the errno in its data bits)
		return seccomp.Policy{DefaultAction: seccomp.ActionAllow, Syscalls: []seccomp.SyscallGroup{{Action: seccomp.ActionErrno | seccomp.Action(38), Names: []string{"seccomp"}}}}
	case "big":
		// valid, about 4000 instructions (tens of milliseconds to assemble); the last list answers the probe
		var l []seccomp.NameWithConditions
		for j := 0; j < 800; j++ {
			l = append(l, cond(uint64(700000+j)))
		}
		l = append(l, cond(uint64(probeBase+idx)))
		return seccomp.Policy{DefaultAction: seccomp.ActionAllow, Syscalls: []seccomp.SyscallGroup{{Action: seccomp.ActionErrno, NamesWithCondtions: l}}}
	case "mid":
		// valid, about 500 instructions
		var l []seccomp.NameWithConditions
		for j := 0; j < 100; j++ {
			l = append(l, cond(uint64(800000+j)))
		}
		l = append(l, cond(uint64(probeBase+idx)))
		return seccomp.Policy{DefaultAction: seccomp.ActionAllow, Syscalls: []seccomp.SyscallGroup{{Action: seccomp.ActionErrno, NamesWithCondtions: l}}}
	case "midnames":
		// valid, names only (about 300 instructions), then the probe
		names := []string{}
		for name := range arch.X86_64.SyscallNames {
			if name != "getppid" && len(names) < 290 {
				names = append(names, name)
			}
		}
		sort.Strings(names)
		_ = names
		return seccomp.Policy{DefaultAction: seccomp.ActionAllow, Syscalls: []seccomp.SyscallGroup{
			{Action: seccomp.ActionLog, Names: names},
			{Action: seccomp.ActionErrno, NamesWithCondtions: []seccomp.NameWithConditions{cond(uint64(probeBase + idx))}}}}
	case "nodefault":
		return seccomp.Policy{Syscalls: []seccomp.SyscallGroup{{Action: seccomp.ActionErrno, NamesWithCondtions: []seccomp.NameWithConditions{cond(uint64(probeBase + idx))}}}, DefaultAction: seccomp.Action(0x12345)}
	}
	return seccomp.Policy{DefaultAction: seccomp.ActionAllow, Syscalls: []seccomp.SyscallGroup{{Action: seccomp.ActionErrno, NamesWithCondtions: []seccomp.NameWithConditions{cond(uint64(probeBase + idx))}}}}
}

// classify projects an error to nil / "err <errno name>" / "err OTHER". The message TEXT is never inspected:
// only the syscall.Errno reachable through the %w chain, and only for the statistics of the evidence; the
// verdicts of the checks use nothing but nil / non-nil.
func classify(err error) string {
	if err == nil {
		return "nil"
	}
	var en syscall.Errno
	if errors.As(err, &en) {
		switch en {
		case syscall.EINVAL:
			return "err EINVAL"
		case syscall.EACCES:
			return "err EACCES"
		case syscall.ENOMEM:
			return "err ENOMEM"
		case syscall.EFAULT:
			return "err EFAULT"
		case syscall.ESRCH:
			return "err ESRCH"
		case syscall.EBUSY:
			return "err EBUSY"
		}
		return fmt.Sprintf("err E%d", int(en))
	}
	return "err OTHER"
}

// runOn executes f on actor K (a locked OS thread: a pinned caller), on an ordinary goroutine ("g"), or on an
// ordinary goroutine that is forced to another OS thread at the schedule point ("gm").
func runOn(who string, step int, f func()) {
	switch {
	case who == "g" || who == "gm" || who == "gp":
		var stop int32
		if who == "gp" {
			// a goroutine under scheduling pressure: stop-the-world cycles requeue the running goroutine, other
			// goroutines keep several threads awake and hungry for work - it may be moved to another thread anywhere
			for i := 0; i < 2; i++ {
				go func() {
					for atomic.LoadInt32(&stop) == 0 {
						runtime.GC()
					}
				}()
			}
			for i := 0; i < 8; i++ {
				go func() {
					for atomic.LoadInt32(&stop) == 0 {
						time.Sleep(20 * time.Microsecond)
					}
				}()
			}
			time.Sleep(5 * time.Millisecond)
			defer func() {
				atomic.StoreInt32(&stop, 1)
				time.Sleep(2 * time.Millisecond)
			}()
		}
		if who == "gm" {
			seccomp.SchedPointVerif = func() {
				before := syscall.Gettid()
				for i := 0; i < 8 && syscall.Gettid() == before; i++ {
					ts := syscall.Timespec{Nsec: 30e6}
					syscall.Nanosleep(&ts, nil)
				}
				fmt.Fprintf(lhOut, "M %d %d %d\n", step, before, syscall.Gettid())
			}
		}
		done := make(chan struct{})
		go func() {
			// the thread this goroutine finds itself on, and its state, right before the call
			t := syscall.Gettid()
			if s, fl, n, ok := readStatus(t); ok {
				fmt.Fprintf(lhOut, "B %d %d %d %d %d\n", step, t, s, fl, n)
			}
			f()
			close(done)
		}()
		<-done
		seccomp.SchedPointVerif = nil
	case strings.HasPrefix(who, "a"):
		k, _ := strconv.Atoi(who[1:])
		w := lhWorkers[k]
		if w == nil || !w.ready || w.gone {
			fmt.Fprintf(lhOut, "X no such actor %s\n", who)
			return
		}
		w.do(f)
	default:
		fmt.Fprintf(lhOut, "X bad who %s\n", who)
	}
}

func flushCalls(step int) {
	lhMu.Lock()
	for _, c := range lhCalls {
		h := 0
		if c.HasArg {
			h = 1
		}
		fmt.Fprintf(lhOut, "C %d %d %d %d %d %d\n", step, c.Tid, c.Op, c.Flags, h, c.Len)
	}
	lhCalls = nil
	lhMu.Unlock()
}

func loadhistChild() {
	defer lhOut.Flush()
	defer func() {
		if r := recover(); r != nil {
			fmt.Fprintf(lhOut, "X panic %v\n", r)
			lhOut.Flush()
			os.Exit(3)
		}
	}()
	hist := os.Getenv("VERIF_LOADHIST")
	ops := strings.Split(hist, ";")
	for _, o := range ops {
		f := strings.Fields(o)
		if len(f) > 1 && f[0] == "load" {
			if i, err := strconv.Atoi(f[1]); err == nil && i > lhNLoads {
				lhNLoads = i
			}
		}
		if len(f) > 6 && f[0] == "pload" {
			for _, b := range []int{1, 6} {
				if i, err := strconv.Atoi(f[b]); err == nil && i > lhNLoads {
					lhNLoads = i
				}
			}
		}
		if len(f) > 1 && f[0] == "groups" {
			continue
		}
	}
	if strings.Contains(hist, " gm ") {
		// forcing a migration needs a single P kept busy by another goroutine
		runtime.GOMAXPROCS(1)
		go func() {
			for {
			}
		}()
	}
	seccomp.ObserveSeccompVerif = func(c seccomp.SeccompCallVerif) {
		lhMu.Lock()
		c.Filter = nil
		lhCalls = append(lhCalls, c)
		lhMu.Unlock()
	}
	fmt.Fprintf(lhOut, "U %d\n", os.Getuid())
	snapshot(-1)
	for step, o := range ops {
		f := strings.Fields(o)
		if len(f) == 0 {
			continue
		}
		fmt.Fprintf(lhOut, "S %d %s\n", step, strings.Join(f, " "))
		lhOut.Flush() // if the operation kills the process, the report says which one it was
		switch f[0] {
		case "actor":
			k, _ := strconv.Atoi(f[1])
			startWorker(k, "actor")
		case "bg":
			k, _ := strconv.Atoi(f[1])
			startWorker(k, f[2])
			rawSleep(2e6)
		case "load":
			// load I who nnp flags policy
			idx, _ := strconv.Atoi(f[1])
			who := f[2]
			nnp := f[3] == "1"
			flags, _ := strconv.ParseUint(f[4], 10, 32)
			pol := policyFor(f[5], idx)
			if insts, err := pol.Assemble(); err == nil {
				if raw, err := bpf.Assemble(insts); err == nil {
					var sb strings.Builder
					for _, r := range raw {
						fmt.Fprintf(&sb, " %d:%d:%d:%d", r.Op, r.Jt, r.Jf, r.K)
					}
					fmt.Fprintf(lhOut, "G %d %d%s\n", step, len(raw), sb.String())
				}
			} else {
				fmt.Fprintf(lhOut, "G %d -1\n", step)
			}
			var err error
			runOn(who, step, func() {
				// VERIF_LOAD_NOFILE=1 (hostile surroundings): no file can be opened while the load runs (soft
				// RLIMIT_NOFILE 0), unless the request itself asks the kernel for a descriptor (listener flag, 8)
				var old syscall.Rlimit
				starve := os.Getenv("VERIF_LOAD_NOFILE") == "1" && flags&8 == 0 && syscall.Getrlimit(syscall.RLIMIT_NOFILE, &old) == nil
				if starve {
					syscall.Setrlimit(syscall.RLIMIT_NOFILE, &syscall.Rlimit{Cur: 0, Max: old.Max})
				}
				err = seccomp.LoadFilter(seccomp.Filter{NoNewPrivs: nnp, Flag: seccomp.FilterFlag(flags), Policy: pol})
				if starve {
					syscall.Setrlimit(syscall.RLIMIT_NOFILE, &old)
				}
			})
			msg := ""
			if err != nil {
				msg = err.Error()
			}
			fmt.Fprintf(lhOut, "R %d %s x%s\n", step, classify(err), hex.EncodeToString([]byte(msg)))
		case "pload":
			// pload I1 aK1 nnp1 flags1 pol1 I2 aK2 nnp2 flags2 pol2: two loads from two pinned actors made to OVERLAP between
			// their prctl and seccomp steps (both wait at the schedule point until the other has arrived)
			type pl struct {
				idx   int
				who   string
				nnp   bool
				flags uint64
				pol   seccomp.Policy
				err   error
			}
			var ls [2]*pl
			for k := 0; k < 2; k++ {
				b := 1 + 5*k
				idx, _ := strconv.Atoi(f[b])
				flags, _ := strconv.ParseUint(f[b+3], 10, 32)
				ls[k] = &pl{idx: idx, who: f[b+1], nnp: f[b+2] == "1", flags: flags, pol: policyFor(f[b+4], idx)}
				tag := "G"
				if k == 1 {
					tag = "G2"
				}
				if insts, err := ls[k].pol.Assemble(); err == nil {
					if raw, err := bpf.Assemble(insts); err == nil {
						var sb strings.Builder
						for _, r := range raw {
							fmt.Fprintf(&sb, " %d:%d:%d:%d", r.Op, r.Jt, r.Jf, r.K)
						}
						fmt.Fprintf(lhOut, "%s %d %d%s\n", tag, step, len(raw), sb.String())
					}
				} else {
					fmt.Fprintf(lhOut, "%s %d -1\n", tag, step)
				}
			}
			var arrived int32
			seccomp.SchedPointVerif = func() {
				atomic.AddInt32(&arrived, 1)
				for i := 0; i < 2000 && atomic.LoadInt32(&arrived) < 2; i++ {
					rawSleep(1e6)
				}
			}
			var pwg sync.WaitGroup
			for k := 0; k < 2; k++ {
				pwg.Add(1)
				go func(l *pl) {
					defer pwg.Done()
					runOn(l.who, step, func() {
						l.err = seccomp.LoadFilter(seccomp.Filter{NoNewPrivs: l.nnp, Flag: seccomp.FilterFlag(l.flags), Policy: l.pol})
					})
				}(ls[k])
			}
			pwg.Wait()
			seccomp.SchedPointVerif = nil
			for k := 0; k < 2; k++ {
				msg := ""
				if ls[k].err != nil {
					msg = ls[k].err.Error()
				}
				tag := "R"
				if k == 1 {
					tag = "R2"
				}
				fmt.Fprintf(lhOut, "%s %d %s x%s\n", tag, step, classify(ls[k].err), hex.EncodeToString([]byte(msg)))
			}
		case "supp":
			var b bool
			runOn(f[1], step, func() { b = seccomp.Supported() })
			fmt.Fprintf(lhOut, "R %d supp %v\n", step, b)
		case "setnnp":
			var err error
			runOn(f[1], step, func() { err = seccomp.SetNoNewPrivs() })
			fmt.Fprintf(lhOut, "R %d %s x\n", step, classify(err))
		case "groups":
			// a long list of supplementary groups (what /proc/self/status then looks like is the process's business)
			n, _ := strconv.Atoi(f[1])
			gs := make([]int, n)
			for i := range gs {
				gs[i] = 70000 + i
			}
			if err := syscall.Setgroups(gs); err != nil {
				fmt.Fprintf(lhOut, "X setgroups %v\n", err)
			}
		case "drop":
			if err := syscall.Setgroups(nil); err != nil {
				fmt.Fprintf(lhOut, "X setgroups %v\n", err)
			}
			if err := syscall.Setgid(65534); err != nil {
				fmt.Fprintf(lhOut, "X setgid %v\n", err)
			}
			if err := syscall.Setuid(65534); err != nil {
				fmt.Fprintf(lhOut, "X setuid %v\n", err)
			}
			syscall.RawSyscall(syscall.SYS_PRCTL, 4 /* PR_SET_DUMPABLE */, 1, 0)
			fmt.Fprintf(lhOut, "U %d\n", os.Getuid())
		case "exit":
			k, _ := strconv.Atoi(f[1])
			if w := lhWorkers[k]; w != nil && w.ready && !w.gone {
				w.gone = true
				w.ch <- func() { runtime.Goexit() }
				for i := 0; i < 400; i++ {
					if _, err := os.Stat(fmt.Sprintf("/proc/self/task/%d", w.tid)); err != nil {
						break
					}
					rawSleep(5e5)
				}
			}
		case "wake":
			atomic.StoreInt32(&lhLoaded, 1)
			for _, k := range lhOrder {
				w := lhWorkers[k]
				if w.kind == "pipe" {
					syscall.Write(w.pipeW, []byte{1})
				}
			}
			for _, k := range lhOrder {
				w := lhWorkers[k]
				if w.kind != "actor" && !w.ready {
					w.do(func() {})
					w.ready = true
					fmt.Fprintf(lhOut, "W %d %d %s\n", step, w.tid, setStr(w.first))
				}
			}
		case "probe", "nop":
		case "sleep":
			ms, _ := strconv.Atoi(f[1])
			time.Sleep(time.Duration(ms) * time.Millisecond)
		default:
			fmt.Fprintf(lhOut, "X unknown op %s\n", f[0])
		}
		flushCalls(step)
		snapshot(step)
		lhOut.Flush()
	}
	fmt.Fprintf(lhOut, "E\n")
	lhOut.Flush()
	os.Exit(0)
}
