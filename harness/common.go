package main

import (
	"bufio"
	"encoding/binary"
	"encoding/hex"
	"fmt"
	"os"
	"sort"
	"strconv"
	"strings"

	"golang.org/x/net/bpf"

	seccomp "github.com/elastic/go-seccomp-bpf"
	"github.com/elastic/go-seccomp-bpf/arch"
)

// allArches lists every exported architecture record of package arch.
var allArches = map[string]*arch.Info{
	"ARM": arch.ARM, "AARCH64": arch.AARCH64, "I386": arch.I386, "X32": arch.X32, "X86_64": arch.X86_64,
	"PPC": arch.PPC, "PPC64": arch.PPC64, "PPC64LE": arch.PPC64LE, "S390": arch.S390, "S390X": arch.S390X,
	"MIPS": arch.MIPS, "MIPSEL": arch.MIPSEL, "MIPS64": arch.MIPS64, "MIPS64N32": arch.MIPS64N32,
	"MIPSEL64": arch.MIPSEL64, "MIPSEL64N32": arch.MIPSEL64N32,
}

// allArchesNative is what arch.GetInfo("") returns in this build (nil if unsupported).
var allArchesNative *arch.Info

func hexs(s string) string { return "x" + hex.EncodeToString([]byte(s)) }

func unhexs(s string) string {
	if len(s) == 0 || s[0] != 'x' {
		panic("bad hex token " + s)
	}
	b, err := hex.DecodeString(s[1:])
	if err != nil {
		panic(err)
	}
	return string(b)
}

type toks struct {
	t []string
	i int
}

func (t *toks) next() string {
	if t.i >= len(t.t) {
		panic("unexpected end of line")
	}
	s := t.t[t.i]
	t.i++
	return s
}

func (t *toks) u64() uint64 {
	v, err := strconv.ParseUint(t.next(), 10, 64)
	if err != nil {
		panic(err)
	}
	return v
}

func (t *toks) int() int { return int(t.u64()) }

var condTokens = map[string]bpf.JumpTest{
	"eq": bpf.JumpEqual, "ne": bpf.JumpNotEqual, "gt": bpf.JumpGreaterThan, "lt": bpf.JumpLessThan,
	"ge": bpf.JumpGreaterOrEqual, "le": bpf.JumpLessOrEqual, "set": bpf.JumpBitsSet, "nset": bpf.JumpBitsNotSet,
}

func condName(c bpf.JumpTest) string {
	for k, v := range condTokens {
		if v == c {
			return k
		}
	}
	return fmt.Sprintf("cond%d", c)
}

var opTokens = map[string]seccomp.Operation{
	"Eq": seccomp.Equal, "Ne": seccomp.NotEqual, "Gt": seccomp.GreaterThan, "Lt": seccomp.LessThan,
	"Ge": seccomp.GreaterOrEqual, "Le": seccomp.LessOrEqual, "Set": seccomp.BitsSet, "NSet": seccomp.BitsNotSet,
	"Other0": "", "Other1": "equal", "Other2": "EQUAL", "Other3": "Equals", "Other4": "bits_set", "Other5": " Equal",
}

func instrTokens(insts []bpf.Instruction) string {
	var sb strings.Builder
	fmt.Fprintf(&sb, "OK %d", len(insts))
	for _, in := range insts {
		switch v := in.(type) {
		case bpf.LoadAbsolute:
			if v.Size == 4 {
				fmt.Fprintf(&sb, " ld:%d", v.Off)
			} else {
				fmt.Fprintf(&sb, " ldsz%d:%d", v.Size, v.Off)
			}
		case bpf.JumpIf:
			fmt.Fprintf(&sb, " jif:%s:%d:%d:%d", condName(v.Cond), v.Val, v.SkipTrue, v.SkipFalse)
		case bpf.Jump:
			fmt.Fprintf(&sb, " ja:%d", v.Skip)
		case bpf.RetConstant:
			fmt.Fprintf(&sb, " ret:%d", v.Val)
		default:
			fmt.Fprintf(&sb, " other:%T", in)
		}
	}
	return sb.String()
}

// errClass maps an error of Policy.Assemble / Program.Assemble to the classes of the model (Result.v).
func errClass(err error) string {
	m := err.Error()
	switch {
	case strings.HasPrefix(m, "invalid default_action"):
		return "default_action"
	case strings.HasPrefix(m, "syscalls must not be empty"):
		return "no_syscalls"
	case strings.HasPrefix(m, "useless jump"):
		return "useless"
	case strings.HasPrefix(m, "backward jumps"):
		return "backward"
	case strings.HasPrefix(m, "jump destination out of reach"):
		return "out_of_reach"
	case strings.HasPrefix(m, "unsupported arch"):
		return "unsupported_arch"
	default:
		return "problems"
	}
}

func setEndian(le bool) {
	// VERIF_NATIVE_ENDIAN=1: the byte order is left as the library determined it itself for this build
	if os.Getenv("VERIF_NATIVE_ENDIAN") == "1" {
		return
	}
	if le {
		seccomp.SetNativeEndianVerif(binary.LittleEndian)
	} else {
		seccomp.SetNativeEndianVerif(binary.BigEndian)
	}
}

// printHeader prints the K line and one A line per architecture record, from the values of the running code.
func printHeader(w *bufio.Writer) {
	c := seccomp.ConstantsVerif()
	names := seccomp.ActionNamesVerif()
	var named []uint64
	for a := range names {
		named = append(named, uint64(a))
	}
	sort.Slice(named, func(i, j int) bool { return named[i] < named[j] })
	fmt.Fprintf(w, "K %d %d %d %d %d %d", uint32(seccomp.ActionErrno), c["errnoEPERM"], c["errnoENOSYS"],
		uint32(arch.X32.SeccompMask), uint32(arch.X86_64.ID), len(named))
	for _, a := range named {
		fmt.Fprintf(w, " %d", a)
	}
	fmt.Fprintln(w)
	var keys []string
	for k := range allArches {
		keys = append(keys, k)
	}
	sort.Strings(keys)
	if native, err := arch.GetInfo(""); err == nil {
		keys = append(keys, "NATIVE")
		allArchesNative = native
	}
	for _, k := range keys {
		ai := allArches[k]
		if k == "NATIVE" {
			ai = allArchesNative
		}
		var nums []int
		for n := range ai.SyscallNumbers {
			nums = append(nums, n)
		}
		sort.Ints(nums)
		fmt.Fprintf(w, "A %s %d %d %d", k, uint32(ai.ID), uint32(ai.SeccompMask), len(nums))
		for _, n := range nums {
			fmt.Fprintf(w, " %d %s", n, hexs(ai.SyscallNumbers[n]))
		}
		fmt.Fprintln(w)
	}
}

func stdinLines(f func(line string)) {
	sc := bufio.NewScanner(os.Stdin)
	sc.Buffer(make([]byte, 1<<20), 1<<30)
	for sc.Scan() {
		f(sc.Text())
	}
	if err := sc.Err(); err != nil {
		panic(err)
	}
}
