package main

import (
	"bufio"
	"encoding/json"
	"fmt"
	"os"
	"sort"
	"strings"

	ucfgyaml "github.com/elastic/go-ucfg/yaml"
	yaml "gopkg.in/yaml.v2"

	seccomp "github.com/elastic/go-seccomp-bpf"
	"github.com/elastic/go-seccomp-bpf/arch"
)

func init() {
	commands["getinfo"] = cmdGetInfo
	commands["tables"] = cmdTables
	commands["text"] = cmdText
	commands["consts"] = cmdConsts
	commands["config"] = cmdConfig
}

// archKey finds the exported variable name of an Info pointer.
func archKey(ai *arch.Info) string {
	for k, v := range allArches {
		if v == ai {
			return k
		}
	}
	return "?"
}

// cmdGetInfo: one hex-encoded name per line -> "<hex> OK <record key>" | "<hex> ERR".
func cmdGetInfo() {
	w := bufio.NewWriter(os.Stdout)
	defer w.Flush()
	stdinLines(func(line string) {
		line = strings.TrimSpace(line)
		if line == "" {
			return
		}
		func() {
			defer func() {
				if r := recover(); r != nil {
					fmt.Fprintf(w, "%s PANIC\n", line)
				}
			}()
			ai, err := arch.GetInfo(unhexs(line))
			if err != nil {
				if ai != nil {
					fmt.Fprintf(w, "%s ERR_WITH_VALUE\n", line)
					return
				}
				fmt.Fprintf(w, "%s ERR\n", line)
				return
			}
			fmt.Fprintf(w, "%s OK %s\n", line, archKey(ai))
		}()
	})
}

// cmdTables dumps every architecture record and both maps of each, sorted.
func cmdTables() {
	w := bufio.NewWriter(os.Stdout)
	defer w.Flush()
	if len(os.Args) > 2 && os.Args[2] == "after-use" {
		useEverything()
	}
	var keys []string
	for k := range allArches {
		keys = append(keys, k)
	}
	sort.Strings(keys)
	for _, k := range keys {
		ai := allArches[k]
		fmt.Fprintf(w, "T %s %s %d %d %d %d\n", k, hexs(ai.Name), uint32(ai.ID), ai.SeccompMask, len(ai.SyscallNumbers), len(ai.SyscallNames))
		var nums []int
		for n := range ai.SyscallNumbers {
			nums = append(nums, n)
		}
		sort.Ints(nums)
		for _, n := range nums {
			fmt.Fprintf(w, "N %s %d %s\n", k, n, hexs(ai.SyscallNumbers[n]))
		}
		var names []string
		for s := range ai.SyscallNames {
			names = append(names, s)
		}
		sort.Strings(names)
		for _, s := range names {
			fmt.Fprintf(w, "S %s %s %d\n", k, hexs(s), ai.SyscallNames[s])
		}
		fmt.Fprintf(w, "I %s %s\n", k, hexs(ai.ID.String()))
	}
}

// cmdText: AU <hex> (Action.Unpack) | AS <n> (Action.String) | AM <n> (MarshalText) | OU <hex> (Operation.Unpack)
// | FS <n> (FilterFlag.String) | FM <n> (FilterFlag.MarshalText)
func cmdText() {
	w := bufio.NewWriter(os.Stdout)
	defer w.Flush()
	stdinLines(func(line string) {
		f := strings.Fields(line)
		if len(f) < 2 {
			return
		}
		func() {
			defer func() {
				if r := recover(); r != nil {
					fmt.Fprintf(w, "%s PANIC\n", line)
				}
			}()
			t := &toks{t: f, i: 1}
			switch f[0] {
			case "AU":
				var a seccomp.Action = 0xdeadbeef
				if err := a.Unpack(unhexs(t.next())); err != nil {
					if a != 0xdeadbeef {
						fmt.Fprintf(w, "%s ERR_MODIFIED %d\n", line, uint32(a))
						return
					}
					fmt.Fprintf(w, "%s ERR\n", line)
					return
				}
				fmt.Fprintf(w, "%s OK %d\n", line, uint32(a))
			case "AS":
				fmt.Fprintf(w, "%s %s\n", line, hexs(seccomp.Action(uint32(t.u64())).String()))
			case "AM":
				b, err := seccomp.Action(uint32(t.u64())).MarshalText()
				if err != nil {
					fmt.Fprintf(w, "%s ERR\n", line)
					return
				}
				fmt.Fprintf(w, "%s %s\n", line, hexs(string(b)))
			case "OU":
				var o seccomp.Operation = "\x00unset"
				if err := o.Unpack(unhexs(t.next())); err != nil {
					fmt.Fprintf(w, "%s ERR\n", line)
					return
				}
				fmt.Fprintf(w, "%s OK %s\n", line, hexs(string(o)))
			case "FS":
				fmt.Fprintf(w, "%s %s\n", line, hexs(seccomp.FilterFlag(uint32(t.u64())).String()))
			case "FM":
				b, err := seccomp.FilterFlag(uint32(t.u64())).MarshalText()
				if err != nil {
					fmt.Fprintf(w, "%s ERR\n", line)
					return
				}
				fmt.Fprintf(w, "%s %s\n", line, hexs(string(b)))
			}
		}()
	})
}

// cmdConsts prints the constants of the running (host) build.
func cmdConsts() {
	c := seccomp.ConstantsVerif()
	out := map[string]uint64{
		"ActionKillThread": uint64(seccomp.ActionKillThread), "ActionKillProcess": uint64(seccomp.ActionKillProcess),
		"ActionTrap": uint64(seccomp.ActionTrap), "ActionErrno": uint64(seccomp.ActionErrno), "ActionTrace": uint64(seccomp.ActionTrace),
		"ActionLog": uint64(seccomp.ActionLog), "ActionAllow": uint64(seccomp.ActionAllow), "ActionUserNotify": uint64(seccomp.ActionUserNotify),
		"FilterFlagTSync": uint64(seccomp.FilterFlagTSync), "FilterFlagLog": uint64(seccomp.FilterFlagLog),
	}
	for k, v := range c {
		out[k] = v
	}
	var keys []string
	for k := range out {
		keys = append(keys, k)
	}
	sort.Strings(keys)
	for _, k := range keys {
		fmt.Printf("%s %d\n", k, out[k])
	}
	names := seccomp.ActionNamesVerif()
	var as []int
	for a := range names {
		as = append(as, int(a))
	}
	sort.Ints(as)
	for _, a := range as {
		fmt.Printf("ACTIONNAME %d %s\n", a, hexs(names[seccomp.Action(a)]))
	}
	fn := seccomp.FilterFlagNamesVerif()
	var fs []int
	for a := range fn {
		fs = append(fs, int(a))
	}
	sort.Ints(fs)
	for _, a := range fs {
		fmt.Printf("FLAGNAME %d %s\n", a, hexs(fn[seccomp.FilterFlag(a)]))
	}
	for _, o := range seccomp.Operations {
		fmt.Printf("OPERATION %s\n", hexs(string(o)))
	}
}

type policyConfig struct {
	Seccomp seccomp.Policy `config:"seccomp" yaml:"seccomp" json:"seccomp"`
}

// loadThroughConfig reads a policy exactly like cmd/sandbox parsePolicy does (go-ucfg yaml), from text.
func loadThroughConfig(text []byte) (*seccomp.Policy, error) {
	conf, err := ucfgyaml.NewConfig(text)
	if err != nil {
		return nil, err
	}
	var c struct {
		Seccomp seccomp.Policy
	}
	if err := conf.Unpack(&c); err != nil {
		return nil, err
	}
	return &c.Seccomp, nil
}

// cmdConfig:
//
//	Y id le arch <hex yaml text>        -> "Y id <compile result of the policy loaded from the text>"
//	M id le arch <policy tokens>        -> "M id mem=<..> ## yaml=<..> ## json=<..>" (in-memory policy; marshalled with
//	                                       yaml.v2 / encoding/json and read back through the configuration path)
func cmdConfig() {
	w := bufio.NewWriterSize(os.Stdout, 1<<20)
	defer w.Flush()
	stdinLines(func(line string) {
		f := strings.Fields(line)
		if len(f) < 4 {
			return
		}
		id := f[1]
		le := f[2] == "1"
		an := f[3]
		switch f[0] {
		case "Y":
			res := func() (res string) {
				defer func() {
					if r := recover(); r != nil {
						res = "PANIC"
					}
				}()
				p, err := loadThroughConfig([]byte(unhexs(f[4])))
				if err != nil {
					return "LOADERR"
				}
				return compilePolicy(le, an, p)
			}()
			fmt.Fprintf(w, "Y %s %s\n", id, res)
		case "M":
			t := &toks{t: f, i: 4}
			p := parsePolicy(t)
			mem := compilePolicy(le, an, p)
			viaText := func(marshal func(interface{}) ([]byte, error)) (res string) {
				defer func() {
					if r := recover(); r != nil {
						res = "PANIC"
					}
				}()
				t2 := &toks{t: f, i: 4}
				fresh := parsePolicy(t2)
				text, err := marshal(policyConfig{Seccomp: *fresh})
				if err != nil {
					return "MARSHALERR"
				}
				back, err := loadThroughConfig(text)
				if err != nil {
					return "LOADERR"
				}
				return compilePolicy(le, an, back)
			}
			y := viaText(yaml.Marshal)
			j := viaText(json.Marshal)
			fmt.Fprintf(w, "M %s mem=%s ## yaml=%s ## json=%s\n", id, mem, y, j)
		}
	})
}

// useEverything puts the module's packages to work on the architecture records before the tables are dumped: name
// lookups (known, unknown, odd case), compilations (valid and refused) for every record, the profiler's listing parser
// on the listings given on stdin ("L <record key> <hex text>"). The tables are constants of package arch: none of this
// may show in them.
func useEverything() {
	var keys []string
	for k := range allArches {
		keys = append(keys, k)
	}
	sort.Strings(keys)
	for _, s := range []string{"", "amd64", "AMD64", "Arm64", "i386", "x32", "ppc64le", "no-such-arch", "aarch64 "} {
		func() {
			defer func() { recover() }()
			arch.GetInfo(s)
		}()
	}
	for _, k := range keys {
		ai := allArches[k]
		var some []string
		for n := range ai.SyscallNames {
			some = append(some, n)
			if len(some) == 5 {
				break
			}
		}
		for _, names := range [][]string{some, append([]string{"no_such_syscall", "", "READ"}, some...)} {
			func() {
				defer func() { recover() }()
				p := &seccomp.Policy{DefaultAction: seccomp.ActionAllow, Syscalls: []seccomp.SyscallGroup{{Action: seccomp.ActionErrno, Names: names}}}
				seccomp.SetArchVerif(p, ai)
				p.Assemble()
				p.Dump(devNull{})
			}()
		}
	}
	dir, err := os.MkdirTemp("", "verif-tables-")
	if err != nil {
		panic(err)
	}
	defer os.RemoveAll(dir)
	realStderr := os.Stderr
	devnull, err := os.OpenFile(os.DevNull, os.O_WRONLY, 0)
	if err != nil {
		panic(err)
	}
	stdinLines(func(line string) {
		f := strings.Fields(line)
		if len(f) != 3 || f[0] != "L" || allArches[f[1]] == nil {
			return
		}
		path := dir + "/listing.txt"
		if err := os.WriteFile(path, []byte(unhexs(f[2])), 0o644); err != nil {
			panic(err)
		}
		extractCase("x", allArches[f[1]], path, devnull, realStderr)
	})
}

type devNull struct{}

func (devNull) Write(b []byte) (int, error) { return len(b), nil }
