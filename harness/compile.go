package main

import (
	"bufio"
	"fmt"
	"golang.org/x/net/bpf"
	"os"
	"strings"

	seccomp "github.com/elastic/go-seccomp-bpf"
	"github.com/elastic/go-seccomp-bpf/arch"
)

func init() { commands["compile"] = cmdCompile }

var prevPolicy *seccomp.Policy

// parsePolicy reads: default ngroups {action nnames name... nnwc {name nconds {arg op val}...}...}
func parsePolicy(t *toks) *seccomp.Policy {
	p := &seccomp.Policy{DefaultAction: seccomp.Action(uint32(t.u64()))}
	ng := t.int()
	for g := 0; g < ng; g++ {
		grp := seccomp.SyscallGroup{Action: seccomp.Action(uint32(t.u64()))}
		nn := t.int()
		for i := 0; i < nn; i++ {
			grp.Names = append(grp.Names, unhexs(t.next()))
		}
		nw := t.int()
		for i := 0; i < nw; i++ {
			nc := seccomp.NameWithConditions{Name: unhexs(t.next())}
			ncond := t.int()
			for j := 0; j < ncond; j++ {
				a := uint32(t.u64())
				optok := t.next()
				op, ok := opTokens[optok]
				if !ok {
					panic("bad op token " + optok)
				}
				v := t.u64()
				nc.Conditions = append(nc.Conditions, seccomp.Condition{Argument: a, Operation: op, Value: v})
			}
			grp.NamesWithCondtions = append(grp.NamesWithCondtions, nc)
		}
		p.Syscalls = append(p.Syscalls, grp)
	}
	return p
}

// layoutMode derives the memory layout of a case's policy from the case's name (so that a replay of the one case
// lays it out the same way)
func layoutMode(id string) int {
	h := 0
	for i := 0; i < len(id); i++ {
		h = h*31 + int(id[i])
	}
	if h < 0 {
		h = -h
	}
	return h % 4
}

// shareBackingArrays lays the name lists, the conditional entries and the condition lists of ALL groups out as
// consecutive sub-slices of one array each (what a caller gets who carves a policy out of one big list): every list keeps
// spare capacity that belongs to its neighbour. Three of four policies of the compile and determ streams are laid out like this, wholly or in part (see mode).
func shareBackingArrays(p *seccomp.Policy, mode int) {
	// mode 0: every list owns its array; 1: the lists of all groups are carved out of shared arrays; 2 / 3: only those of
	// the groups at even / odd positions are (the others lie elsewhere)
	if mode == 0 {
		return
	}
	shared := func(gi int) bool { return mode == 1 || gi%2 == mode%2 }
	var names []string
	var nwcs []seccomp.NameWithConditions
	var conds []seccomp.Condition
	type span struct{ gi, wi, start, n int }
	var spans []span
	lastLen := 0
	for gi, g := range p.Syscalls {
		if !shared(gi) {
			continue
		}
		names = append(names, g.Names...)
		for wi, w := range g.NamesWithCondtions {
			n := len(w.Conditions)
			if n == 0 {
				continue
			}
			// a list that begins with the tail of the list laid out just before it - or with that whole list - OVERLAPS it (two
			// windows of one array)
			k := 0
			for kk := n - 1; kk >= 1; kk-- {
				if kk <= lastLen && sameConds(conds[len(conds)-kk:], w.Conditions[:kk]) {
					k = kk
					break
				}
			}
			spans = append(spans, span{gi, wi, len(conds) - k, n})
			conds = append(conds, w.Conditions[k:]...)
			lastLen = n
		}
	}
	// spare room behind the last list too
	names = append(names, "spare-1", "spare-2")[:len(names)]
	conds = append(conds, seccomp.Condition{}, seccomp.Condition{})[:len(conds)]
	for _, sp := range spans {
		p.Syscalls[sp.gi].NamesWithCondtions[sp.wi].Conditions = conds[sp.start : sp.start+sp.n]
	}
	no := 0
	for gi := range p.Syscalls {
		if !shared(gi) {
			continue
		}
		nwcs = append(nwcs, p.Syscalls[gi].NamesWithCondtions...)
	}
	wo := 0
	for gi := range p.Syscalls {
		if !shared(gi) {
			continue
		}
		g := &p.Syscalls[gi]
		if n := len(g.Names); n > 0 {
			g.Names = names[no : no+n]
			no += n
		}
		if n := len(g.NamesWithCondtions); n > 0 {
			g.NamesWithCondtions = nwcs[wo : wo+n]
			wo += n
		}
	}
}

func sameConds(a, b []seccomp.Condition) bool {
	if len(a) != len(b) {
		return false
	}
	for i := range a {
		if a[i] != b[i] {
			return false
		}
	}
	return true
}

func compilePolicy(le bool, archName string, p *seccomp.Policy) (res string) {
	defer func() {
		if r := recover(); r != nil {
			res = "PANIC"
		}
	}()
	setEndian(le)
	// "A>B": the same policy VALUE is first assembled for architecture A (result ignored), then for B
	if i := strings.Index(archName, ">"); i >= 0 && strings.HasPrefix(archName, "G:") {
		// "G:<spelling>>B": the architecture is looked up by name through the public arch.GetInfo (B is what the
		// documentation says the spelling denotes)
		ai, err := arch.GetInfo(archName[2:i])
		if err != nil {
			return "ERR getinfo"
		}
		seccomp.SetArchVerif(p, ai)
		insts, err := p.Assemble()
		if err != nil {
			if insts != nil {
				return "ERR_WITH_PROGRAM " + errClass(err)
			}
			return "ERR " + errClass(err)
		}
		return instrTokens(insts)
	}
	if strings.HasPrefix(archName, "S>") {
		// "S>B": the exported SyscallGroup.Assemble is called first on every group of the value, through pointers into
		// the policy's slice (whatever it returns or panics with is ignored); then the policy is assembled for B
		for i := range p.Syscalls {
			func() {
				defer func() { recover() }()
				p.Syscalls[i].Assemble(p.DefaultAction)
			}()
		}
		archName = archName[2:]
	}
	if strings.HasPrefix(archName, "@@>") {
		// the value keeps whatever architecture the previous (failed) call left in it
		insts, err := p.Assemble()
		if err != nil {
			if insts != nil {
				return "ERR_WITH_PROGRAM " + errClass(err)
			}
			return "ERR " + errClass(err)
		}
		return instrTokens(insts)
	}
	if i := strings.Index(archName, ">"); i >= 0 {
		if first, ok := allArches[archName[:i]]; ok {
			seccomp.SetArchVerif(p, first)
			p.Assemble()
		}
		archName = archName[i+1:]
	}
	// "NATIVE": the architecture is left unset, the library resolves it itself (arch.GetInfo of the build's GOARCH)
	if archName != "NATIVE" {
		ai, ok := allArches[archName]
		if !ok {
			panic("unknown arch " + archName)
		}
		seccomp.SetArchVerif(p, ai)
	}
	insts, err := p.Assemble()
	if err != nil {
		if insts != nil {
			return "ERR_WITH_PROGRAM " + errClass(err)
		}
		return "ERR " + errClass(err)
	}
	lastInsts = insts
	return instrTokens(insts)
}

// lastInsts is the program the last successful plain compilation returned (the caller keeps it)
var lastInsts []bpf.Instruction

func runBuilder(t *toks) (res string) {
	defer func() {
		if r := recover(); r != nil {
			res = "PANIC"
		}
	}()
	le := t.next() == "1"
	setEndian(le)
	n := t.int()
	p := seccomp.NewProgram()
	for i := 0; i < n; i++ {
		switch op := t.next(); op {
		case "N":
			p.NewLabel()
		case "J":
			c := condTokens[t.next()]
			k := uint32(t.u64())
			tl := seccomp.Label(t.int())
			fl := seccomp.Label(t.int())
			p.JmpIf(c, k, tl, fl)
		case "T":
			c := condTokens[t.next()]
			k := uint32(t.u64())
			tl := seccomp.Label(t.int())
			p.JmpIfTrue(c, k, tl)
		case "G":
			p.Jmp(seccomp.Label(t.int()))
		case "S":
			p.SetLabel(seccomp.Label(t.int()))
		case "R":
			p.Ret(seccomp.Action(uint32(t.u64())))
		case "H":
			p.LdHi(uint32(t.u64()))
		case "L":
			p.LdLo(uint32(t.u64()))
		default:
			panic("bad builder op " + op)
		}
	}
	insts, err := p.Assemble()
	if err != nil {
		return "ERR " + errClass(err)
	}
	first := instrTokens(insts)
	// the builder value is the caller's: assembling it again gives the same list (and leaves the first one alone)
	again, err2 := p.Assemble()
	if err2 != nil {
		return "SECOND_ASSEMBLE_FAILS " + errClass(err2)
	}
	if second := instrTokens(again); second != first {
		// the list of the SECOND call is what gets compared and run on the events (a different list need not be a wrong
		// one; the first call's list is compared in every other case)
		return second
	}
	if instrTokens(insts) != first {
		return "CLOBBERED the list returned by the first Assemble changed during the second"
	}
	return first
}

// cmdCompile annotates every B and P case line with the result of the real code; other lines pass through.
func cmdCompile() {
	w := bufio.NewWriterSize(os.Stdout, 1<<20)
	defer w.Flush()
	printHeader(w)
	stdinLines(func(line string) {
		f := strings.Fields(line)
		if len(f) == 0 {
			return
		}
		switch f[0] {
		case "B":
			t := &toks{t: f, i: 2}
			fmt.Fprintf(w, "%s | %s\n", line, runBuilder(t))
		case "P":
			t := &toks{t: f, i: 2}
			le := t.next() == "1"
			an := t.next()
			p := parsePolicy(t)
			shareBackingArrays(p, layoutMode(f[1]))
			// "@>B": the policy VALUE of the previous case is edited in place (its exported fields are overwritten
			// with this policy's) and assembled again, for B
			if (strings.HasPrefix(an, "@>") || strings.HasPrefix(an, "@@>")) && prevPolicy != nil {
				prevPolicy.DefaultAction = p.DefaultAction
				prevPolicy.Syscalls = p.Syscalls
				p = prevPolicy
			}
			prevPolicy = p
			// a program that was returned earlier belongs to the caller: it reads the same after any later compilation
			kept, keptText := lastInsts, ""
			if kept != nil {
				keptText = instrTokens(kept)
			}
			lastInsts = nil
			res := compilePolicy(le, an, p)
			if kept != nil && instrTokens(kept) != keptText {
				res = "CLOBBERED the program returned by the previous compilation changed during this one"
			}
			fmt.Fprintf(w, "%s | %s\n", line, res)
		default:
			fmt.Fprintln(w, line)
		}
	})
}
