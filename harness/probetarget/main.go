// probe target of the C15 check: a separate program image started by cmd/sandbox.
//
//	target <marker file> <probe file>
//
// appends a line to the marker file (proof that it ran), reports the seccomp state of the parent's threads and
// its own no_new_privs bit, then issues the probe system calls RAW and prints S <idx> before and
// D <idx> <errno> <r1> after each (unbuffered: a probe that kills the process leaves its S line).
package main

import (
	"fmt"
	"os"
	"strconv"
	"strings"
	"syscall"
)

func field(status, key string) string {
	for _, ln := range strings.Split(status, "\n") {
		if strings.HasPrefix(ln, key+":") {
			return strings.TrimSpace(ln[len(key)+1:])
		}
	}
	return "?"
}

func main() {
	if len(os.Args) < 3 {
		os.Exit(90)
	}
	f, err := os.OpenFile(os.Args[1], os.O_APPEND|os.O_CREATE|os.O_WRONLY, 0666)
	if err != nil {
		os.Exit(91)
	}
	f.WriteString("ran " + strings.Join(os.Args[3:], " ") + "\n")
	f.Close()
	out := os.Stdout
	self, _ := os.ReadFile("/proc/self/status")
	out.WriteString(fmt.Sprintf("N %s %s %s\n", field(string(self), "NoNewPrivs"), field(string(self), "Seccomp"), field(string(self), "Seccomp_filters")))
	ppid, _ := strconv.Atoi(field(string(self), "PPid")) // not getppid(2): the policy may restrict it
	if ents, err := os.ReadDir(fmt.Sprintf("/proc/%d/task", ppid)); err == nil {
		for _, e := range ents {
			b, err := os.ReadFile(fmt.Sprintf("/proc/%d/task/%s/status", ppid, e.Name()))
			if err == nil {
				out.WriteString(fmt.Sprintf("T %s %s %s\n", e.Name(), field(string(b), "Seccomp"), field(string(b), "Seccomp_filters")))
			}
		}
	}
	data, err := os.ReadFile(os.Args[2])
	if err != nil {
		os.Exit(92)
	}
	for i, ln := range strings.Split(strings.TrimSpace(string(data)), "\n") {
		g := strings.Fields(ln)
		if len(g) != 7 {
			continue
		}
		var v [7]uintptr
		for j := range v {
			x, _ := strconv.ParseUint(g[j], 10, 64)
			v[j] = uintptr(x)
		}
		out.WriteString("S " + strconv.Itoa(i) + "\n")
		r1, _, en := syscall.RawSyscall6(v[0], v[1], v[2], v[3], v[4], v[5], v[6])
		out.WriteString("D " + strconv.Itoa(i) + " " + strconv.Itoa(int(en)) + " " + strconv.FormatUint(uint64(r1), 10) + "\n")
	}
	out.WriteString("Z\n")
}
