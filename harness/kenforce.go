package main

// kenforce (C08): loads generated policies through the real seccomp.LoadFilter in throw-away child processes and
// observes (1) the sock_fprog handed to seccomp(2) (hook ObserveSeccompVerif) and (2) what the running kernel
// answers to harmless, argument-ignoring probe system calls issued RAW with chosen 64-bit values in all six
// argument registers, from a locked OS thread.
//
//	input (stdin), one case = one L line followed by its V lines:
//	  L <id> <flags> <nnp 0|1> <uid> <prober same|other> <policy tokens as in compile.go>
//	  V <nr> <arch (ignored: native)> <ip (ignored)> <a0> <a1> <a2> <a3> <a4> <a5>
//	output (stdout), per case:
//	  L <id> load=<ok|err|none> status=<exit:N|signal:N|timeout> ncalls=<n> op=<op> flags=<f> len=<Len> tidsame=<0|1> loader=<tid> prober=<tid> msg=<hex> stderr=<hex>
//	  F <id> <n> <code:jt:jf:k>*n                 the captured filter array (n = instructions copied by the hook)
//	  E <id> <idx> <done|started|notrun> <errno> <r1>
//
// The child reports through a shared-memory file (no system call can be relied on once a filter is in force;
// all stores go through sync/atomic). A probe that kills the process leaves its event in state "started".

import (
	"bufio"
	"context"
	"encoding/hex"
	"fmt"
	"io"
	"os"
	"os/exec"
	"runtime"
	"strings"
	"sync"
	"sync/atomic"
	"syscall"
	"time"
	"unsafe"

	seccomp "github.com/elastic/go-seccomp-bpf"
)

func init() {
	commands["kenforce"] = cmdKenforce
	commands["kenforce-child"] = cmdKenforceChild
}

const (
	keCapOff   = 4096
	keCapMax   = 65536
	keEvOff    = keCapOff + 8*keCapMax
	keEvSize   = 16
	keMsgOff   = 64
	keMsgMax   = 512
	kePhase    = 0
	keNCalls   = 4
	keOp       = 8
	keFlags    = 12
	keCapTid   = 16
	keLen      = 20
	keCount    = 24
	keLoader   = 28
	keProber   = 32
	keProgress = 36
	keMsgLen   = 40
)

type keEvent struct {
	nr   uintptr
	args [6]uintptr
}

type keCase struct {
	id     string
	flags  uint32
	nnp    bool
	uid    int
	prober string
	policy *seccomp.Policy
	events []keEvent
	lines  []string
}

func keParseCase(lines []string) *keCase {
	c := &keCase{lines: lines}
	f := strings.Fields(lines[0])
	t := &toks{t: f, i: 1}
	c.id = t.next()
	c.flags = uint32(t.u64())
	c.nnp = t.next() == "1"
	c.uid = t.int()
	c.prober = t.next()
	c.policy = parsePolicy(t)
	for _, ln := range lines[1:] {
		g := strings.Fields(ln)
		if len(g) != 10 || g[0] != "V" {
			continue
		}
		tt := &toks{t: g, i: 1}
		var e keEvent
		e.nr = uintptr(tt.u64())
		tt.u64()
		tt.u64()
		for i := 0; i < 6; i++ {
			e.args[i] = uintptr(tt.u64())
		}
		c.events = append(c.events, e)
	}
	return c
}

func keU32(mem []byte, off int) *uint32 { return (*uint32)(unsafe.Pointer(&mem[off])) }
func keU64(mem []byte, off int) *uint64 { return (*uint64)(unsafe.Pointer(&mem[off])) }

func cmdKenforceChild() {
	// os.Args[2] = shared-memory file, os.Args[3] = case file
	data, err := os.ReadFile(os.Args[3])
	if err != nil {
		os.Exit(3)
	}
	c := keParseCase(strings.Split(strings.TrimRight(string(data), "\n"), "\n"))
	f, err := os.OpenFile(os.Args[2], os.O_RDWR, 0)
	if err != nil {
		os.Exit(3)
	}
	size := keEvOff + keEvSize*(len(c.events)+1)
	mem, err := syscall.Mmap(int(f.Fd()), 0, size, syscall.PROT_READ|syscall.PROT_WRITE, syscall.MAP_SHARED)
	if err != nil {
		os.Exit(3)
	}
	f.Close()
	if c.uid != 0 {
		if err := syscall.Setgid(c.uid); err != nil {
			os.Exit(4)
		}
		if err := syscall.Setuid(c.uid); err != nil {
			os.Exit(4)
		}
	}
	runtime.LockOSThread()
	atomic.StoreUint32(keU32(mem, keLoader), uint32(syscall.Gettid()))

	probe := func() {
		atomic.StoreUint32(keU32(mem, keProber), uint32(syscall.Gettid()))
		for i, e := range c.events {
			off := keEvOff + keEvSize*i
			atomic.StoreUint32(keU32(mem, off), 1)
			atomic.StoreUint32(keU32(mem, keProgress), uint32(i+1))
			r1, _, en := syscall.RawSyscall6(e.nr, e.args[0], e.args[1], e.args[2], e.args[3], e.args[4], e.args[5])
			atomic.StoreUint32(keU32(mem, off+4), uint32(en))
			atomic.StoreUint64(keU64(mem, off+8), uint64(r1))
			atomic.StoreUint32(keU32(mem, off), 2)
		}
	}

	// a second OS thread that exists BEFORE the load (thread-sync must reach it; a thread created afterwards
	// would merely inherit the filter)
	start := make(chan struct{})
	done := make(chan struct{})
	ready := make(chan struct{})
	go func() {
		runtime.LockOSThread()
		close(ready)
		<-start
		probe()
		close(done)
	}()
	<-ready

	// optional surroundings of the load (suffixes of the prober field):
	//   +div   another OS thread has loaded a filter of its own (without thread-sync) before: a thread-sync load must then
	//          be refused by the kernel and reported as an error - or, if it returns nil, be in force
	//   +race  another OS thread loads a different policy at the same time; the two LoadFilter calls are made to overlap
	//          between their prctl and seccomp steps (schedule-point hook)
	other := seccomp.Policy{DefaultAction: seccomp.ActionAllow, Syscalls: []seccomp.SyscallGroup{{Action: seccomp.ActionErrno,
		NamesWithCondtions: []seccomp.NameWithConditions{
			{Name: "getpgrp", Conditions: []seccomp.Condition{{Argument: 0, Operation: seccomp.Equal, Value: 0x7777000077770000}, {Argument: 1, Operation: seccomp.Equal, Value: 0x1234567812345678}}},
			{Name: "getegid", Conditions: []seccomp.Condition{{Argument: 1, Operation: seccomp.Equal, Value: 0x7777000077770001}, {Argument: 2, Operation: seccomp.Equal, Value: 0x1234567812345679}}}}}}}
	if strings.Contains(c.prober, "+div") {
		ok := make(chan error)
		go func() {
			runtime.LockOSThread()
			ok <- seccomp.LoadFilter(seccomp.Filter{NoNewPrivs: true, Policy: other})
			select {} // keeps its filter for the life of the process
		}()
		if err := <-ok; err != nil {
			os.Exit(5)
		}
	}
	//   +twice the loading thread has loaded another (practically never matching) filter before: the load under test
	//          is the second one of this thread and must be installed as well
	if strings.Contains(c.prober, "+twice") {
		if err := seccomp.LoadFilter(seccomp.Filter{NoNewPrivs: true, Flag: seccomp.FilterFlag(c.flags & 1), Policy: other}); err != nil {
			os.Exit(5)
		}
	}
	var mu sync.Mutex
	var calls []seccomp.SeccompCallVerif
	seccomp.ObserveSeccompVerif = func(sc seccomp.SeccompCallVerif) {
		mu.Lock()
		calls = append(calls, sc)
		mu.Unlock()
	}
	raceDone := make(chan struct{})
	if strings.Contains(c.prober, "+race") {
		var arrived int32
		seccomp.SchedPointVerif = func() {
			atomic.AddInt32(&arrived, 1)
			for i := 0; i < 2000 && atomic.LoadInt32(&arrived) < 2; i++ {
				time.Sleep(time.Millisecond)
			}
		}
		go func() {
			runtime.LockOSThread()
			seccomp.LoadFilter(seccomp.Filter{NoNewPrivs: true, Policy: other})
			close(raceDone)
			select {}
		}()
	} else {
		close(raceDone)
	}
	//   +edited the Policy VALUE that is loaded has been assembled and dumped before, when it still said something else
	//          (same default action, same number of groups, other rules), and was then edited in place
	pv := *c.policy
	if strings.Contains(c.prober, "+edited") {
		pv = seccomp.Policy{DefaultAction: c.policy.DefaultAction}
		for _, g := range c.policy.Syscalls {
			pv.Syscalls = append(pv.Syscalls, seccomp.SyscallGroup{Action: g.Action, Names: []string{"sched_yield"}})
		}
		pv.Assemble()
		pv.Dump(io.Discard)
		for i := range c.policy.Syscalls {
			pv.Syscalls[i].Names = c.policy.Syscalls[i].Names
			pv.Syscalls[i].NamesWithCondtions = c.policy.Syscalls[i].NamesWithCondtions
			pv.Syscalls[i].Action = c.policy.Syscalls[i].Action
		}
	}
	//   +gc    two garbage collections and a burst of allocations of the program's size run between LoadFilter's prctl and
	//          seccomp steps (schedule-point hook): whatever the kernel is handed must still be the program
	var keepAlive [][]byte
	if strings.Contains(c.prober, "+gc") && !strings.Contains(c.prober, "+race") {
		n := 8
		if insts, err := c.policy.Assemble(); err == nil {
			n = 8 * len(insts)
		}
		seccomp.SchedPointVerif = func() {
			runtime.GC()
			runtime.GC()
			for i := 0; i < 3000; i++ {
				b := make([]byte, n)
				for j := range b {
					b[j] = 0xff
				}
				keepAlive = append(keepAlive, b)
			}
		}
	}
	me := syscall.Gettid()
	lerr := seccomp.LoadFilter(seccomp.Filter{NoNewPrivs: c.nnp, Flag: seccomp.FilterFlag(c.flags), Policy: pv})
	<-raceDone
	seccomp.ObserveSeccompVerif = nil
	seccomp.SchedPointVerif = nil
	runtime.KeepAlive(keepAlive)
	// the calls made by this thread only
	mu.Lock()
	mine := calls[:0:0]
	for _, sc := range calls {
		if sc.Tid == me {
			mine = append(mine, sc)
		}
	}
	calls = mine
	mu.Unlock()

	atomic.StoreUint32(keU32(mem, keNCalls), uint32(len(calls)))
	if len(calls) > 0 {
		sc := calls[len(calls)-1]
		atomic.StoreUint32(keU32(mem, keOp), uint32(sc.Op))
		atomic.StoreUint32(keU32(mem, keFlags), sc.Flags)
		atomic.StoreUint32(keU32(mem, keCapTid), uint32(sc.Tid))
		atomic.StoreUint32(keU32(mem, keLen), uint32(sc.Len))
		n := len(sc.Filter)
		if n > keCapMax {
			n = keCapMax
		}
		for i := 0; i < n; i++ {
			in := sc.Filter[i]
			atomic.StoreUint32(keU32(mem, keCapOff+8*i), uint32(in.Code)|uint32(in.Jt)<<16|uint32(in.Jf)<<24)
			atomic.StoreUint32(keU32(mem, keCapOff+8*i+4), in.K)
		}
		atomic.StoreUint32(keU32(mem, keCount), uint32(n))
	}
	if lerr != nil {
		msg := lerr.Error()
		if len(msg) > keMsgMax {
			msg = msg[:keMsgMax]
		}
		copy(mem[keMsgOff:], msg)
		atomic.StoreUint32(keU32(mem, keMsgLen), uint32(len(msg)))
		atomic.StoreUint32(keU32(mem, kePhase), 2)
		os.Exit(0)
	}
	atomic.StoreUint32(keU32(mem, kePhase), 1)
	if strings.HasPrefix(c.prober, "other") {
		close(start)
		<-done
	} else {
		// the caller pinned itself to this thread before the load and is still pinned after it: give the scheduler
		// every reason to move an unpinned goroutine (busy goroutines, sleeps, yields) before probing
		var stop int32
		for i := 0; i < 3; i++ {
			go func() {
				for atomic.LoadInt32(&stop) == 0 {
					for k := 0; k < 2000; k++ {
					}
					runtime.Gosched() // asynchronous preemption is off in these children
				}
			}()
		}
		for i := 0; i < 12; i++ {
			time.Sleep(200 * time.Microsecond)
			runtime.Gosched()
		}
		atomic.StoreInt32(&stop, 1)
		probe()
	}
	atomic.StoreUint32(keU32(mem, kePhase), 3)
	os.Exit(0)
}

func keRunCase(c *keCase) []string {
	var out []string
	fail := func(why string) []string {
		return []string{fmt.Sprintf("L %s load=none status=harness:%s ncalls=0 op=0 flags=0 len=0 tidsame=0 loader=0 prober=0 msg=x stderr=x", c.id, hex.EncodeToString([]byte(why)))}
	}
	st, err := os.CreateTemp("/dev/shm", "kenforce-st-")
	if err != nil {
		return fail(err.Error())
	}
	defer os.Remove(st.Name())
	defer st.Close()
	size := keEvOff + keEvSize*(len(c.events)+1)
	if err := st.Truncate(int64(size)); err != nil {
		return fail(err.Error())
	}
	cf, err := os.CreateTemp("/dev/shm", "kenforce-case-")
	if err != nil {
		return fail(err.Error())
	}
	defer os.Remove(cf.Name())
	cf.WriteString(strings.Join(c.lines, "\n") + "\n")
	cf.Close()
	if c.uid != 0 {
		os.Chmod(st.Name(), 0666)
		os.Chmod(cf.Name(), 0644)
	}
	ctx, cancel := context.WithTimeout(context.Background(), 20*time.Second)
	defer cancel()
	cmd := exec.CommandContext(ctx, os.Args[0], "kenforce-child", st.Name(), cf.Name())
	cmd.Env = append(os.Environ(), "GODEBUG=asyncpreemptoff=1", "GOTRACEBACK=none", "GOMAXPROCS=4")
	var stderr strings.Builder
	cmd.Stderr = &stderr
	werr := cmd.Run()
	status := "exit:0"
	if ctx.Err() != nil {
		status = "timeout"
	} else if werr != nil {
		if ee, ok := werr.(*exec.ExitError); ok {
			ws := ee.Sys().(syscall.WaitStatus)
			if ws.Signaled() {
				status = fmt.Sprintf("signal:%d", int(ws.Signal()))
			} else {
				status = fmt.Sprintf("exit:%d", ws.ExitStatus())
			}
		} else {
			status = "harness:" + hex.EncodeToString([]byte(werr.Error()))
		}
	}
	mem := make([]byte, size)
	if _, err := st.ReadAt(mem, 0); err != nil {
		return fail(err.Error())
	}
	u32 := func(off int) uint32 {
		return uint32(mem[off]) | uint32(mem[off+1])<<8 | uint32(mem[off+2])<<16 | uint32(mem[off+3])<<24
	}
	u64 := func(off int) uint64 { return uint64(u32(off)) | uint64(u32(off+4))<<32 }
	load := "none"
	switch u32(kePhase) {
	case 1, 3:
		load = "ok"
	case 2:
		load = "err"
	}
	msg := string(mem[keMsgOff : keMsgOff+int(u32(keMsgLen))])
	se := stderr.String()
	if len(se) > 400 {
		se = se[:400]
	}
	same := 0
	if u32(keCapTid) == u32(keLoader) {
		same = 1
	}
	out = append(out, fmt.Sprintf("L %s load=%s status=%s ncalls=%d op=%d flags=%d len=%d tidsame=%d loader=%d prober=%d msg=x%s stderr=x%s",
		c.id, load, status, u32(keNCalls), u32(keOp), u32(keFlags), u32(keLen), same, u32(keLoader), u32(keProber),
		hex.EncodeToString([]byte(msg)), hex.EncodeToString([]byte(se))))
	n := int(u32(keCount))
	var sb strings.Builder
	fmt.Fprintf(&sb, "F %s %d", c.id, n)
	for i := 0; i < n; i++ {
		w := u32(keCapOff + 8*i)
		fmt.Fprintf(&sb, " %d:%d:%d:%d", w&0xffff, (w>>16)&0xff, (w>>24)&0xff, u32(keCapOff+8*i+4))
	}
	out = append(out, sb.String())
	for i := range c.events {
		off := keEvOff + keEvSize*i
		state := [...]string{"notrun", "started", "done"}[u32(off)%3]
		out = append(out, fmt.Sprintf("E %s %d %s %d %d", c.id, i, state, u32(off+4), u64(off+8)))
	}
	return out
}

func cmdKenforce() {
	var cases []*keCase
	var cur []string
	flush := func() {
		if len(cur) > 0 {
			cases = append(cases, keParseCase(cur))
			cur = nil
		}
	}
	stdinLines(func(line string) {
		if strings.HasPrefix(line, "L ") {
			flush()
			cur = []string{line}
		} else if strings.HasPrefix(line, "V ") && cur != nil {
			cur = append(cur, line)
		}
	})
	flush()
	results := make([][]string, len(cases))
	var wg sync.WaitGroup
	ch := make(chan int)
	for w := 0; w < 12; w++ {
		wg.Add(1)
		go func() {
			defer wg.Done()
			for i := range ch {
				results[i] = keRunCase(cases[i])
			}
		}()
	}
	for i := range cases {
		ch <- i
	}
	close(ch)
	wg.Wait()
	w := bufio.NewWriterSize(os.Stdout, 1<<20)
	defer w.Flush()
	for _, r := range results {
		for _, ln := range r {
			fmt.Fprintln(w, ln)
		}
	}
}
