package main

import (
	"bufio"
	"fmt"
	"os"
	"path/filepath"
	"regexp"
	"runtime"
	"sort"
	"strconv"
	"strings"
	"syscall"

	"github.com/elastic/go-seccomp-bpf/arch"
	"github.com/elastic/go-seccomp-bpf/cmd/seccomp-profiler/disasm"
)

func init() {
	commands["disasm"] = cmdDisasm
}

// The two expressions of disasm.go, for the primitive stream only (R1/R2 lines): they validate the
// model of Go's regexp semantics. The parser under test uses its own, unexported, copies.
var (
	primCallRegex = regexp.MustCompile(`MOV[A-Z]? \$(.+), 0\(SP\)`)
	primRawRegex  = regexp.MustCompile(`MOV[A-Z]? \$(.+), (?:AX|BP)`)
)

// cmdDisasm (property C16). Prints a header (A key id mask for every architecture record; T key id mask count
// (num xname)* for every record that has a table), then one result line per input line:
//
//	C id key mode xcontent   -> ExtractSyscalls(arch.<key>, path); mode file: path holds content;
//	                            dir: path is a directory (the read fails); noent: path does not exist;
//	                            fifo: path is a named pipe through which content is written in pieces
//	                            C id OK n (num xname xcaller xfunction xlocation xassembly)* | C id ERR | C id PANIC xmsg
//	R1|R2 xline              -> regexp.FindStringSubmatch:   R1 none | R1 xwhole xcapture
//	PI xs                    -> strconv.ParseInt(s, 0, 64):  PI err | PI n
//	F xs                     -> strings.Fields:              F n xfield*
//	S xdata                  -> bufio.Scanner lines:         S eof|toolong n xline*
func cmdDisasm() {
	w := bufio.NewWriter(os.Stdout)
	defer w.Flush()
	var keys []string
	for k := range allArches {
		keys = append(keys, k)
	}
	sort.Strings(keys)
	for _, k := range keys {
		fmt.Fprintf(w, "A %s %d %d\n", k, uint32(allArches[k].ID), uint32(allArches[k].SeccompMask))
	}
	printTables := func(tag string) {
		for _, k := range keys {
			ai := allArches[k]
			if len(ai.SyscallNumbers) == 0 {
				continue
			}
			var nums []int
			for n := range ai.SyscallNumbers {
				nums = append(nums, n)
			}
			sort.Ints(nums)
			fmt.Fprintf(w, "%s %s %d %d %d", tag, k, uint32(ai.ID), uint32(ai.SeccompMask), len(nums))
			for _, n := range nums {
				fmt.Fprintf(w, " %d %s", n, hexs(ai.SyscallNumbers[n]))
			}
			fmt.Fprintln(w)
			var names []string
			for nm := range ai.SyscallNames {
				names = append(names, nm)
			}
			sort.Strings(names)
			fmt.Fprintf(w, "%sN %s %d", tag, k, len(names))
			for _, nm := range names {
				fmt.Fprintf(w, " %s %d", hexs(nm), ai.SyscallNames[nm])
			}
			fmt.Fprintln(w)
		}
	}
	printTables("T")
	// the tables are data of package arch: they read the same after the parser has worked (lines "U", at the end)
	defer printTables("U")
	base := "/dev/shm"
	if st, err := os.Stat(base); err != nil || !st.IsDir() {
		base = os.TempDir()
	}
	dir, err := os.MkdirTemp(base, "verif-disasm-")
	if err != nil {
		panic(err)
	}
	defer os.RemoveAll(dir)
	path := filepath.Join(dir, "objdump.txt")
	subdir := filepath.Join(dir, "a-directory")
	if err := os.Mkdir(subdir, 0o755); err != nil {
		panic(err)
	}
	realStderr := os.Stderr
	devnull, err := os.OpenFile(os.DevNull, os.O_WRONLY, 0)
	if err != nil {
		panic(err)
	}
	stdinLines(func(line string) {
		f := strings.Split(line, " ")
		switch {
		case len(f) == 5 && f[0] == "C":
			ai := allArches[f[2]]
			if ai == nil {
				panic("unknown architecture key " + f[2])
			}
			p := path
			switch f[3] {
			case "file":
				if err := os.WriteFile(path, []byte(unhexs(f[4])), 0o644); err != nil {
					panic(err)
				}
			case "fifo":
				// the same text behind a named pipe (what a shell's process substitution or /dev/stdin hands over):
				// a file without a size that delivers its bytes in pieces
				p = filepath.Join(dir, "objdump.fifo")
				os.Remove(p)
				if err := syscall.Mkfifo(p, 0o644); err != nil {
					panic(err)
				}
				content := []byte(unhexs(f[4]))
				done := make(chan struct{})
				go func(p string) {
					defer close(done)
					wf, err := os.OpenFile(p, os.O_WRONLY, 0)
					if err != nil {
						return
					}
					defer wf.Close()
					for len(content) > 0 {
						n := 1000
						if n > len(content) {
							n = len(content)
						}
						if _, err := wf.Write(content[:n]); err != nil {
							return
						}
						content = content[n:]
					}
				}(p)
				fmt.Fprintln(w, extractCase(f[1], ai, p, devnull, realStderr))
				// a reader that gave up early leaves the writer blocked: open and drain
				if rf, err := os.OpenFile(p, os.O_RDONLY|syscall.O_NONBLOCK, 0); err == nil {
					buf := make([]byte, 1<<16)
					for {
						select {
						case <-done:
						default:
							if _, err := rf.Read(buf); err == nil {
								continue
							}
							runtime.Gosched()
							continue
						}
						break
					}
					rf.Close()
				}
				<-done
				return
			case "dir":
				p = subdir
			case "noent":
				p = filepath.Join(dir, "does-not-exist")
			default:
				panic("bad mode " + f[3])
			}
			fmt.Fprintln(w, extractCase(f[1], ai, p, devnull, realStderr))
		case len(f) == 2 && (f[0] == "R1" || f[0] == "R2"):
			re := primCallRegex
			if f[0] == "R2" {
				re = primRawRegex
			}
			m := re.FindStringSubmatch(unhexs(f[1]))
			if len(m) != 2 {
				fmt.Fprintf(w, "%s none\n", f[0])
			} else {
				fmt.Fprintf(w, "%s %s %s\n", f[0], hexs(m[0]), hexs(m[1]))
			}
		case len(f) == 2 && f[0] == "PI":
			n, err := strconv.ParseInt(unhexs(f[1]), 0, 64)
			if err != nil {
				fmt.Fprintln(w, "PI err")
			} else {
				fmt.Fprintf(w, "PI %d\n", int(n))
			}
		case len(f) == 2 && f[0] == "F":
			fs := strings.Fields(unhexs(f[1]))
			fmt.Fprintf(w, "F %d", len(fs))
			for _, x := range fs {
				fmt.Fprintf(w, " %s", hexs(x))
			}
			fmt.Fprintln(w)
		case len(f) == 2 && f[0] == "S":
			s := bufio.NewScanner(bufio.NewReader(strings.NewReader(unhexs(f[1]))))
			var ls []string
			for s.Scan() {
				ls = append(ls, s.Text())
			}
			end := "eof"
			if s.Err() != nil {
				end = "toolong"
			}
			fmt.Fprintf(w, "S %s %d", end, len(ls))
			for _, x := range ls {
				fmt.Fprintf(w, " %s", hexs(x))
			}
			fmt.Fprintln(w)
		case strings.TrimSpace(line) == "" || f[0] == "A" || f[0] == "T":
			// header lines may be fed back
		default:
			if len(line) > 80 {
				line = line[:80]
			}
			panic("cannot parse line: " + line)
		}
	})
}

// extractCase calls the real ExtractSyscalls with the parser's warnings (os.Stderr) discarded.
func extractCase(id string, ai *arch.Info, p string, devnull, realStderr *os.File) (out string) {
	os.Stderr = devnull
	defer func() {
		os.Stderr = realStderr
		if r := recover(); r != nil {
			out = fmt.Sprintf("C %s PANIC %s", id, hexs(fmt.Sprint(r)))
		}
	}()
	recs, err := disasm.ExtractSyscalls(ai, p)
	if err != nil {
		if len(recs) != 0 {
			return fmt.Sprintf("C %s ERR_WITH_VALUE", id)
		}
		return fmt.Sprintf("C %s ERR", id)
	}
	var sb strings.Builder
	fmt.Fprintf(&sb, "C %s OK %d", id, len(recs))
	for _, r := range recs {
		fmt.Fprintf(&sb, " %d %s %s %s %s %s", r.Num, hexs(r.Name), hexs(r.Caller), hexs(r.Function), hexs(r.Location), hexs(r.Assembly))
	}
	return sb.String()
}
