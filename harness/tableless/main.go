// Command tableless (C19) compiles a fixed set of policies through the PUBLIC API only, with the architecture left
// to the library (the build's GOARCH). It is built for a target without syscall tables (js/wasm, run with node) - where
// every compilation must fail - and, as a control, for 386 - where every one of these policies compiles.
// One line per policy: "T <n> OK <instructions>" | "T <n> ERR" | "T <n> PANIC".
package main

import (
	"fmt"

	seccomp "github.com/elastic/go-seccomp-bpf"
)

func policies() []seccomp.Policy {
	cond := []seccomp.NameWithConditions{{Name: "write", Conditions: []seccomp.Condition{{Argument: 0, Operation: seccomp.Equal, Value: 1}}}}
	var ps []seccomp.Policy
	for _, def := range []seccomp.Action{seccomp.ActionAllow, seccomp.ActionErrno, seccomp.ActionKillProcess, seccomp.ActionKillThread, seccomp.ActionLog, seccomp.ActionTrap, seccomp.ActionTrace} {
		for _, act := range []seccomp.Action{seccomp.ActionAllow, seccomp.ActionErrno} {
			ps = append(ps,
				seccomp.Policy{DefaultAction: def, Syscalls: []seccomp.SyscallGroup{{Action: act}}},                                                   // one group, no names
				seccomp.Policy{DefaultAction: def, Syscalls: []seccomp.SyscallGroup{{Action: act}, {Action: def}, {Action: act, Names: []string{}}}}, // only empty groups
				seccomp.Policy{DefaultAction: def, Syscalls: []seccomp.SyscallGroup{{Action: act, Names: []string{"read"}}}},
				seccomp.Policy{DefaultAction: def, Syscalls: []seccomp.SyscallGroup{{Action: act, Names: []string{"read", "write", "exit"}}, {Action: def, Names: []string{"getpid"}}}},
				seccomp.Policy{DefaultAction: def, Syscalls: []seccomp.SyscallGroup{{Action: act, NamesWithCondtions: cond}}},
				seccomp.Policy{DefaultAction: def, Syscalls: []seccomp.SyscallGroup{{Action: act}, {Action: act, Names: []string{"close"}, NamesWithCondtions: cond}}},
			)
		}
	}
	return ps
}

func compile(p *seccomp.Policy) (res string) {
	defer func() {
		if r := recover(); r != nil {
			res = "PANIC"
		}
	}()
	insts, err := p.Assemble()
	if err != nil {
		if insts != nil {
			return "ERR_WITH_PROGRAM"
		}
		return "ERR"
	}
	return fmt.Sprintf("OK %d", len(insts))
}

func main() {
	ps := policies()
	for i := range ps {
		fmt.Printf("T %d %s\n", i, compile(&ps[i]))
	}
	fmt.Printf("N %d\n", len(ps))
}
