package main

import (
	"bufio"
	"crypto/sha256"
	"encoding/hex"
	"fmt"
	"os"
	"reflect"
	"sort"
	"strings"
	"sync"

	seccomp "github.com/elastic/go-seccomp-bpf"
	"github.com/elastic/go-seccomp-bpf/arch"
)

// determ (C13): for every policy line
//
//	P <id> <le> <arch> <policy tokens>
//
// compiles the same value three times, then 16 by-value copies (sharing the slices of the original) concurrently
// while other goroutines look up architectures and convert actions and flags to text, and reports
//
//	D <id> <same|DIFF> <intact|MUTATED> <sha256 of the program text> texts=<sha256 of the text conversions>
//
// Built with -race by the check, so unsynchronised accesses are reported by the race detector.
func init() { commands["determ"] = cmdDeterm }

// flagText is what the documentation says FilterFlag.String returns: the names of the named bits that are set, in
// ascending bit order, then "unknown" if any other bit is set, joined with "|".
func flagText(f uint32) string {
	var parts []string
	if f&1 != 0 {
		parts = append(parts, "tsync")
	}
	if f&2 != 0 {
		parts = append(parts, "log")
	}
	if f&^3 != 0 {
		parts = append(parts, "unknown")
	}
	return strings.Join(parts, "|")
}

// freshFlags converts flag values nobody has converted before in this process (n distinguishes the callers), several
// of them with more than one unnamed bit, and checks each against flagText.
func freshFlags(n uint32) string {
	var sb strings.Builder
	for _, f := range []uint32{4 << (n % 20), 12 << (n % 20), (0x1a << (n % 20)) | 1, 0x80000004 | n<<8, 3 | 0x100<<(n%16), 0xffffffff - n} {
		got := seccomp.FilterFlag(f).String()
		if got != flagText(f) {
			fmt.Fprintf(&sb, "TEXT-WRONG:%d:%s;", f, got)
		}
	}
	return sb.String()
}

func textProbe() string {
	var sb strings.Builder
	for f := 0; f < 8; f++ {
		sb.WriteString(seccomp.FilterFlag(f).String())
		sb.WriteByte(';')
	}
	for _, f := range []uint32{4, 8, 12, 13, 0x1a, 0x80000004} { // single unnamed bits first, then combinations of them
		if got := seccomp.FilterFlag(f).String(); got != flagText(f) {
			fmt.Fprintf(&sb, "TEXT-WRONG:%d:%s;", f, got)
		}
	}
	for _, a := range []seccomp.Action{seccomp.ActionAllow, seccomp.ActionErrno, seccomp.ActionKillProcess, seccomp.ActionKillThread,
		seccomp.ActionLog, seccomp.ActionTrace, seccomp.ActionTrap, 12345} {
		sb.WriteString(a.String())
		sb.WriteByte(';')
		var b seccomp.Action
		if err := b.Unpack(strings.ToUpper(a.String())); err == nil {
			fmt.Fprintf(&sb, "%d", uint32(b))
		}
		sb.WriteByte(';')
	}
	// a caller may do what it likes with a returned []byte: the text of a value must not depend on it
	for _, a := range []seccomp.Action{seccomp.ActionAllow, seccomp.ActionErrno, seccomp.ActionKillProcess, 12345, 54321} {
		if b, err := a.MarshalText(); err == nil {
			for i := range b {
				b[i] = 'X'
			}
		}
		b2, _ := a.MarshalText()
		if string(b2) != a.String() {
			sb.WriteString("TEXT-CHANGED-BY-CALLER:")
		}
		sb.WriteString(string(b2))
		sb.WriteByte(';')
	}
	for f := 0; f < 8; f++ {
		if b, err := seccomp.FilterFlag(f).MarshalText(); err == nil {
			for i := range b {
				b[i] = 'X'
			}
		}
		b2, _ := seccomp.FilterFlag(f).MarshalText()
		if string(b2) != seccomp.FilterFlag(f).String() {
			sb.WriteString("TEXT-CHANGED-BY-CALLER:")
		}
		sb.WriteString(string(b2))
		sb.WriteByte(';')
	}
	for _, n := range []string{"amd64", "X86_64", "386", "arm64", "ARM", "x32", "ppc64", "nope"} {
		if ai, err := arch.GetInfo(n); err == nil {
			fmt.Fprintf(&sb, "%s:%d:%d:%d;", ai.Name, ai.ID, len(ai.SyscallNames), ai.SyscallNames["getpid"])
		} else {
			sb.WriteString("err;")
		}
	}
	return sb.String()
}

func cmdDeterm() {
	caseNo := 0
	w := bufio.NewWriterSize(os.Stdout, 1<<20)
	defer w.Flush()
	texts0 := textProbe()
	stdinLines(func(line string) {
		f := strings.Fields(line)
		if len(f) < 4 || f[0] != "P" {
			return
		}
		id := f[1]
		le := f[2] == "1"
		an := f[3]
		ai := allArches[an]
		setEndian(le)
		orig := parsePolicy(&toks{t: f, i: 4})
		snapshot := parsePolicy(&toks{t: f, i: 4})
		shareBackingArrays(orig, layoutMode(id))
		compile := func(p *seccomp.Policy) (res string) {
			defer func() {
				if r := recover(); r != nil {
					res = "PANIC"
				}
			}()
			insts, err := p.Assemble()
			if err != nil {
				// within one build the error of equal policies is the same TEXT (which architecture's table rejected a
				// name shows in it)
				return "ERR " + errClass(err) + " " + err.Error()
			}
			return instrTokens(insts)
		}
		// the architecture is set ONCE on the value (by-value copies carry it along): whatever a compilation - also a
		// failing one - does to the value shows in the next compilation of the same value
		seccomp.SetArchVerif(orig, ai)
		first := compile(orig)
		same := compile(orig) == first && compile(orig) == first
		var wg sync.WaitGroup
		results := make([]string, 16)
		texts := make([]string, 4)
		for g := 0; g < 16; g++ {
			cp := *orig // by-value copy: shares Syscalls, Names, Conditions with the original
			wg.Add(1)
			go func(g int, p *seccomp.Policy) {
				defer wg.Done()
				results[g] = compile(p)
			}(g, &cp)
		}
		fresh := make([]string, 4)
		caseNo++
		for g := 0; g < 4; g++ {
			wg.Add(1)
			go func(g int) {
				defer wg.Done()
				texts[g] = textProbe()
				fresh[g] = freshFlags(uint32(caseNo*4 + g))
			}(g)
		}
		wg.Wait()
		for _, r := range results {
			if r != first {
				same = false
			}
		}
		tsame := !strings.Contains(texts0, "TEXT-CHANGED-BY-CALLER") && !strings.Contains(texts0, "TEXT-WRONG")
		for _, t := range fresh {
			if t != "" {
				tsame = false
			}
		}
		for _, t := range texts {
			if t != texts0 {
				tsame = false
			}
		}
		intact := orig.DefaultAction == snapshot.DefaultAction && reflect.DeepEqual(orig.Syscalls, snapshot.Syscalls)
		h := sha256.Sum256([]byte(first))
		th := sha256.Sum256([]byte(texts0))
		verdict := "same"
		if !same || !tsame {
			verdict = "DIFF"
		}
		state := "intact"
		if !intact {
			state = "MUTATED"
		}
		fmt.Fprintf(w, "D %s %s %s %s texts=%s\n", id, verdict, state, hex.EncodeToString(h[:8]), hex.EncodeToString(th[:8]))
	})
}

// firstuse (C13): the FIRST uses of the library in this process happen concurrently. Sixteen goroutines are released
// together; each looks up an architecture under its own mixed-case spelling, compiles its own policy value (with
// argument conditions; half of them for the architecture the library resolves itself) and converts actions and flags to
// text. Nothing of the library has run before (no byte-order hook, no lookup). Afterwards the same work is repeated
// sequentially and compared. Prints "F <variant> ok" or "F <variant> DIFF <what>"; the race detector reports the rest.
func init() { commands["firstuse"] = cmdFirstUse }

func cmdFirstUse() {
	variant := 0
	if len(os.Args) > 2 {
		fmt.Sscanf(os.Args[2], "%d", &variant)
	}
	spellings := []struct{ s, key string }{
		{"AMD64", "X86_64"}, {"Amd64", "X86_64"}, {"X86_64", "X86_64"}, {"x86_64", "X86_64"}, {"I386", "I386"}, {"386", "I386"},
		{"ARM", "ARM"}, {"Arm", "ARM"}, {"ARM64", "AARCH64"}, {"AArch64", "AARCH64"}, {"aarch64", "AARCH64"}, {"X32", "X32"},
		{"aMd64", "X86_64"}, {"i386", "I386"}, {"arM", "ARM"}, {"aRm64", "AARCH64"},
	}
	ops := []seccomp.Operation{seccomp.Equal, seccomp.NotEqual, seccomp.GreaterThan, seccomp.LessThan, seccomp.GreaterOrEqual,
		seccomp.LessOrEqual, seccomp.BitsSet, seccomp.BitsNotSet}
	work := func(g int) string {
		var sb strings.Builder
		sp := spellings[(g+variant)%len(spellings)]
		step := func(k int) {
			switch k {
			case 0:
				ai, err := arch.GetInfo(sp.s)
				if err != nil || ai != allArches[sp.key] {
					fmt.Fprintf(&sb, "LOOKUP-WRONG:%s;", sp.s)
				}
			case 1:
				p := &seccomp.Policy{DefaultAction: seccomp.ActionAllow, Syscalls: []seccomp.SyscallGroup{{
					Action: seccomp.ActionErrno,
					Names:  []string{"getpid"},
					NamesWithCondtions: []seccomp.NameWithConditions{{Name: "write", Conditions: []seccomp.Condition{
						{Argument: uint32(g % 6), Operation: ops[g%8], Value: uint64(g)<<32 | uint64(variant)}}}},
				}}}
				if g%2 == 0 {
					seccomp.SetArchVerif(p, allArches[sp.key])
				}
				insts, err := p.Assemble()
				if err != nil {
					sb.WriteString("ERR;")
				} else {
					sb.WriteString(instrTokens(insts))
					sb.WriteByte(';')
				}
			case 2:
				sb.WriteString(seccomp.Action(uint32(0x7fff0000)).String())
				sb.WriteString(seccomp.FilterFlag(uint32(g%8) | 4<<uint(g)).String())
				sb.WriteByte(';')
			}
		}
		for k := 0; k < 3; k++ {
			step((k + g + variant) % 3)
		}
		// the order of the steps must not matter for what each of them yields
		parts := strings.Split(sb.String(), ";")
		sort.Strings(parts)
		return strings.Join(parts, ";")
	}
	var wg sync.WaitGroup
	start := make(chan struct{})
	conc := make([]string, 16)
	for g := 0; g < 16; g++ {
		wg.Add(1)
		go func(g int) {
			defer wg.Done()
			<-start
			conc[g] = work(g)
		}(g)
	}
	close(start)
	wg.Wait()
	verdict := "ok"
	for g := 0; g < 16; g++ {
		if again := work(g); again != conc[g] || strings.Contains(again, "LOOKUP-WRONG") {
			verdict = fmt.Sprintf("DIFF goroutine %d: concurrent first use %q, sequential repeat %q", g, conc[g], again)
			break
		}
	}
	// every spelling still resolves to its record, unknown names are still refused
	for _, sp := range spellings {
		if ai, err := arch.GetInfo(sp.s); err != nil || ai != allArches[sp.key] {
			verdict = "DIFF lookup of " + sp.s + " after the concurrent phase"
		}
	}
	if _, err := arch.GetInfo("Nope64"); err == nil {
		verdict = "DIFF an unknown name resolves after the concurrent phase"
	}
	fmt.Printf("F %d %s\n", variant, verdict)
}
