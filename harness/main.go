// Command harness drives the real go-seccomp-bpf code (built from the repository's working tree
// with -tags verif) on the case files of the verification machinery. See /verif/DESIGN.md.
package main

import (
	"fmt"
	"os"
	"runtime"
	"sort"
	"unsafe"

	"golang.org/x/sys/unix"
)

// commands is filled by the init functions of the files that implement the sub-commands.
var commands = map[string]func(){}

func main() {
	if len(os.Args) < 2 || commands[os.Args[1]] == nil {
		var names []string
		for k := range commands {
			names = append(names, k)
		}
		sort.Strings(names)
		fmt.Fprintln(os.Stderr, "usage: harness <command> ...; commands:", names)
		os.Exit(2)
	}
	if os.Getenv("VERIF_OUTER_FILTER") == "1" {
		installOuterFilter()
	}
	commands[os.Args[1]]()
}

// installOuterFilter (hostile surroundings, VERIF_OUTER_FILTER=1): the whole process is confined, before anything of
// the library runs, by a hand-written filter - no code of the library under test is involved - that answers seccomp(2)
// with EPERM and allows everything else: what a process started by a container runtime or by a sandbox sees.
func installOuterFilter() {
	type sockFilter struct {
		code   uint16
		jt, jf uint8
		k      uint32
	}
	type sockFprog struct {
		n      uint16
		filter *sockFilter
	}
	const (
		ldAbsW = 0x20
		jeqK   = 0x15
		retK   = 0x06
	)
	prog := []sockFilter{
		{ldAbsW, 0, 0, 4},
		{jeqK, 2, 0, 0xc000003e}, // AUDIT_ARCH_X86_64 -> 4
		{jeqK, 3, 0, 0x40000003}, // AUDIT_ARCH_I386 -> 6
		{retK, 0, 0, 0x7fff0000},
		{ldAbsW, 0, 0, 0},
		{jeqK, 3, 2, 317}, // seccomp on x86_64 (and, with the x32 bit clear, only there)
		{ldAbsW, 0, 0, 0},
		{jeqK, 1, 0, 354}, // seccomp on i386
		{retK, 0, 0, 0x7fff0000},
		{retK, 0, 0, 0x00050000 | 1}, // ERRNO | EPERM
	}
	runtime.LockOSThread()
	defer runtime.UnlockOSThread()
	if err := unix.Prctl(unix.PR_SET_NO_NEW_PRIVS, 1, 0, 0, 0); err != nil {
		panic(err)
	}
	fp := sockFprog{n: uint16(len(prog)), filter: &prog[0]}
	// SECCOMP_SET_MODE_FILTER = 1, SECCOMP_FILTER_FLAG_TSYNC = 1: every thread of the process
	if _, _, e := unix.Syscall(unix.SYS_SECCOMP, 1, 1, uintptr(unsafe.Pointer(&fp))); e != 0 {
		panic(e)
	}
}
