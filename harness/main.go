// Command harness drives the real go-seccomp-bpf code (built from the repository's working tree
// with -tags verif) on the case files of the verification machinery. See /verif/DESIGN.md.
package main

import (
	"fmt"
	"os"
)

func main() {
	if len(os.Args) < 2 {
		fmt.Fprintln(os.Stderr, "usage: harness <command>")
		os.Exit(2)
	}
	switch os.Args[1] {
	case "compile":
		cmdCompile()
	default:
		fmt.Fprintln(os.Stderr, "unknown command", os.Args[1])
		os.Exit(2)
	}
}
