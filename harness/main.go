// Command harness drives the real go-seccomp-bpf code (built from the repository's working tree
// with -tags verif) on the case files of the verification machinery. See /verif/DESIGN.md.
package main

import (
	"fmt"
	"os"
	"sort"
)

// commands is filled by the init functions of the files that implement the sub-commands.
var commands = map[string]func(){}

func main() {
	if len(os.Args) < 2 || commands[os.Args[1]] == nil {
		var names []string
		for k := range commands {
			names = append(names, k)
		}
		sort.Strings(names)
		fmt.Fprintln(os.Stderr, "usage: harness <command> ...; commands:", names)
		os.Exit(2)
	}
	commands[os.Args[1]]()
}
