package main

import (
	"bufio"
	"fmt"
	"os"
	"os/exec"
	"runtime"
	"strconv"
	"strings"
	"sync"
	"sync/atomic"
	"syscall"
	"time"
	"unsafe"
)

// kprobe: offers raw classic-BPF programs to the running kernel's seccomp(2) and reports whether the kernel's
// filter verifier accepts them. One throw-away child process per program (a filter cannot be removed).
//
//	input:   R <id> <n> <code:jt:jf:k>*n        (n may differ from the number of instructions given: the length
//	                                             field passed to the kernel is n, the array holds what is listed)
//	output:  R <id> ACCEPT | ERR <errno> | UNKNOWN <detail>
func init() {
	commands["kprobe"] = cmdKprobe
	commands["kprobe-child"] = cmdKprobeChild
}

const (
	sysSeccomp          = 317 // x86_64; overridden below for other hosts
	seccompSetModeFiltr = 1
	prSetNoNewPrivs     = 38
)

func seccompNr() uintptr {
	switch runtime.GOARCH {
	case "amd64":
		return 317
	case "386":
		return 354
	case "arm":
		return 383
	case "arm64":
		return 277
	}
	return 317
}

func cmdKprobeChild() {
	// os.Args[2] = status file (shared memory), os.Args[3] = n, os.Args[4:] = instructions.
	// The verdict is stored in the shared mapping because no system call can be relied on once the filter is in force.
	f, err := os.OpenFile(os.Args[2], os.O_RDWR, 0)
	if err != nil {
		os.Exit(3)
	}
	mem, err := syscall.Mmap(int(f.Fd()), 0, 16, syscall.PROT_READ|syscall.PROT_WRITE, syscall.MAP_SHARED)
	if err != nil {
		os.Exit(3)
	}
	f.Close()
	status := (*uint32)(unsafe.Pointer(&mem[0]))
	n, _ := strconv.Atoi(os.Args[3])
	var prog []syscall.SockFilter
	for _, tok := range os.Args[4:] {
		f := strings.Split(tok, ":")
		c, _ := strconv.ParseUint(f[0], 10, 16)
		jt, _ := strconv.ParseUint(f[1], 10, 8)
		jf, _ := strconv.ParseUint(f[2], 10, 8)
		k, _ := strconv.ParseUint(f[3], 10, 32)
		prog = append(prog, syscall.SockFilter{Code: uint16(c), Jt: uint8(jt), Jf: uint8(jf), K: uint32(k)})
	}
	runtime.LockOSThread()
	if _, _, e := syscall.Syscall6(syscall.SYS_PRCTL, prSetNoNewPrivs, 1, 0, 0, 0, 0); e != 0 {
		mem[4] = byte(e)
		atomic.StoreUint32(status, 3)
		os.Exit(0)
	}
	fprog := syscall.SockFprog{Len: uint16(n)}
	if len(prog) > 0 {
		fprog.Filter = &prog[0]
	}
	_, _, e := syscall.Syscall(seccompNr(), seccompSetModeFiltr, 0, uintptr(unsafe.Pointer(&fprog)))
	if e != 0 {
		mem[4] = byte(e)
		mem[5] = byte(e >> 8)
		atomic.StoreUint32(status, 2)
		os.Exit(0)
	}
	atomic.StoreUint32(status, 1) // installed; the parent kills this process
	for atomic.LoadUint32(status) != 99 {
	}
}

func probeOne(idx int, args []string) string {
	st, err := os.CreateTemp("/dev/shm", "kprobe-st-")
	if err != nil {
		return "UNKNOWN " + err.Error()
	}
	defer os.Remove(st.Name())
	defer st.Close()
	st.Write(make([]byte, 16))
	cmd := exec.Command(os.Args[0], append([]string{"kprobe-child", st.Name()}, args...)...)
	cmd.Env = append(os.Environ(), "GODEBUG=asyncpreemptoff=1")
	if err := cmd.Start(); err != nil {
		return "UNKNOWN " + err.Error()
	}
	buf := make([]byte, 16)
	verdict := "UNKNOWN timeout"
	deadline := time.Now().Add(20 * time.Second)
	for time.Now().Before(deadline) {
		st.ReadAt(buf, 0)
		if buf[0] == 1 {
			verdict = "ACCEPT"
			break
		}
		if buf[0] == 2 {
			verdict = fmt.Sprintf("ERR %d", int(buf[4])|int(buf[5])<<8)
			break
		}
		if buf[0] == 3 {
			verdict = fmt.Sprintf("UNKNOWN prctl %d", buf[4])
			break
		}
		time.Sleep(200 * time.Microsecond)
	}
	cmd.Process.Kill()
	cmd.Wait()
	return verdict
}

func cmdKprobe() {
	type job struct {
		idx  int
		id   string
		args []string
	}
	var jobs []job
	stdinLines(func(line string) {
		f := strings.Fields(line)
		if len(f) < 3 || f[0] != "R" {
			return
		}
		jobs = append(jobs, job{idx: len(jobs), id: f[1], args: f[2:]})
	})
	results := make([]string, len(jobs))
	var wg sync.WaitGroup
	ch := make(chan job)
	for w := 0; w < 16; w++ {
		wg.Add(1)
		go func() {
			defer wg.Done()
			for j := range ch {
				results[j.idx] = probeOne(j.idx, j.args)
			}
		}()
	}
	for _, j := range jobs {
		ch <- j
	}
	close(ch)
	wg.Wait()
	w := bufio.NewWriter(os.Stdout)
	defer w.Flush()
	for i, j := range jobs {
		fmt.Fprintf(w, "R %s %s\n", j.id, results[i])
	}
}
