package main

// Commands for the profiler properties (C17, C18):
//   loadyaml: "Y id le arch <file>" per line -> "Y id <policy tokens> | <compile result>"
//             the file is read exactly like cmd/sandbox parsePolicy does (go-ucfg yaml.NewConfigWithFile, Unpack into
//             a struct with a Seccomp field), compiled for the named architecture record.
//   gocode:   "G id <file>" per line -> "G id OK pkg=<p> tag=<hex> var=<v> default=<sel> groups=<n> action=<sel> names <n> <hex>*"
//             the -format code output parsed with go/parser; the names are the string literals of the Names field.

import (
	"bufio"
	"fmt"
	"go/ast"
	"go/parser"
	"go/token"
	"os"
	"strconv"
	"strings"

	ucfgyaml "github.com/elastic/go-ucfg/yaml"

	seccomp "github.com/elastic/go-seccomp-bpf"
)

func init() {
	commands["loadyaml"] = cmdLoadYAML
	commands["gocode"] = cmdGoCode
}

func loadPolicyFile(path string) (*seccomp.Policy, error) {
	conf, err := ucfgyaml.NewConfigWithFile(path)
	if err != nil {
		return nil, err
	}
	type Config struct {
		Seccomp seccomp.Policy
	}
	var config Config
	if err = conf.Unpack(&config); err != nil {
		return nil, err
	}
	return &config.Seccomp, nil
}

// policyTokens prints a policy in the token form of the case files (see compile.go parsePolicy).
func policyTokens(p *seccomp.Policy) string {
	var sb strings.Builder
	fmt.Fprintf(&sb, "%d %d", uint32(p.DefaultAction), len(p.Syscalls))
	for _, g := range p.Syscalls {
		fmt.Fprintf(&sb, " %d %d", uint32(g.Action), len(g.Names))
		for _, n := range g.Names {
			sb.WriteString(" " + hexs(n))
		}
		fmt.Fprintf(&sb, " %d", len(g.NamesWithCondtions))
		for _, nc := range g.NamesWithCondtions {
			fmt.Fprintf(&sb, " %s %d", hexs(nc.Name), len(nc.Conditions))
			for _, c := range nc.Conditions {
				fmt.Fprintf(&sb, " %d %s %d", c.Argument, hexs(string(c.Operation)), c.Value)
			}
		}
	}
	return sb.String()
}

func cmdLoadYAML() {
	w := bufio.NewWriterSize(os.Stdout, 1<<20)
	defer w.Flush()
	stdinLines(func(line string) {
		f := strings.Fields(line)
		if len(f) < 5 || f[0] != "Y" {
			return
		}
		id, le, an, path := f[1], f[2] == "1", f[3], f[4]
		res := func() (res string) {
			defer func() {
				if r := recover(); r != nil {
					res = "- | PANIC"
				}
			}()
			p, err := loadPolicyFile(path)
			if err != nil {
				return "- | LOADERR " + hexs(err.Error())
			}
			toks := policyTokens(p)
			return toks + " | " + compilePolicy(le, an, p)
		}()
		fmt.Fprintf(w, "Y %s %s\n", id, res)
	})
}

func selName(e ast.Expr) string {
	switch v := e.(type) {
	case *ast.SelectorExpr:
		if x, ok := v.X.(*ast.Ident); ok {
			return x.Name + "." + v.Sel.Name
		}
	case *ast.Ident:
		return v.Name
	}
	return "?"
}

func typeName(e ast.Expr) string {
	switch v := e.(type) {
	case *ast.ArrayType:
		return "[]" + typeName(v.Elt)
	case nil:
		return ""
	}
	return selName(e)
}

func cmdGoCode() {
	w := bufio.NewWriterSize(os.Stdout, 1<<20)
	defer w.Flush()
	stdinLines(func(line string) {
		f := strings.Fields(line)
		if len(f) < 3 || f[0] != "G" {
			return
		}
		id, path := f[1], f[2]
		res := func() (res string) {
			defer func() {
				if r := recover(); r != nil {
					res = fmt.Sprintf("SHAPE %v", r)
				}
			}()
			fset := token.NewFileSet()
			file, err := parser.ParseFile(fset, path, nil, parser.ParseComments|parser.AllErrors)
			if err != nil {
				return "PARSEERR " + hexs(err.Error())
			}
			tag := ""
			for _, cg := range file.Comments {
				for _, c := range cg.List {
					if strings.Contains(c.Text, "+build") {
						tag = strings.TrimSpace(strings.TrimPrefix(c.Text, "//"))
					}
				}
			}
			var imports []string
			for _, im := range file.Imports {
				s, _ := strconv.Unquote(im.Path.Value)
				imports = append(imports, s)
			}
			var out []string
			nvars := 0
			for _, d := range file.Decls {
				gd, ok := d.(*ast.GenDecl)
				if !ok || gd.Tok != token.VAR {
					continue
				}
				for _, sp := range gd.Specs {
					vs := sp.(*ast.ValueSpec)
					nvars++
					lit := vs.Values[0].(*ast.CompositeLit)
					def, groups, action := "?", -1, "?"
					var names []string
					nnames := -1
					extra := 0
					for _, el := range lit.Elts {
						kv := el.(*ast.KeyValueExpr)
						switch selName(kv.Key) {
						case "DefaultAction":
							def = selName(kv.Value)
						case "Syscalls":
							gl := kv.Value.(*ast.CompositeLit)
							if typeName(gl.Type) != "[]seccomp.SyscallGroup" {
								panic("Syscalls type " + typeName(gl.Type))
							}
							groups = len(gl.Elts)
							for _, ge := range gl.Elts {
								for _, gel := range ge.(*ast.CompositeLit).Elts {
									gkv := gel.(*ast.KeyValueExpr)
									switch selName(gkv.Key) {
									case "Action":
										action = selName(gkv.Value)
									case "Names":
										nl := gkv.Value.(*ast.CompositeLit)
										if typeName(nl.Type) != "[]string" {
											panic("Names type " + typeName(nl.Type))
										}
										nnames = len(nl.Elts)
										for _, ne := range nl.Elts {
											s, err := strconv.Unquote(ne.(*ast.BasicLit).Value)
											if err != nil {
												panic(err)
											}
											names = append(names, hexs(s))
										}
									default:
										extra++
									}
								}
							}
						default:
							extra++
						}
					}
					out = append(out, fmt.Sprintf("var=%s type=%s default=%s groups=%d action=%s extra=%d names %d %s",
						vs.Names[0].Name, typeName(lit.Type), def, groups, action, extra, nnames, strings.Join(names, " ")))
				}
			}
			if nvars != 1 {
				return fmt.Sprintf("SHAPE %d variables", nvars)
			}
			return fmt.Sprintf("OK pkg=%s tag=%s imports=%s %s", file.Name.Name, hexs(tag), hexs(strings.Join(imports, ",")), out[0])
		}()
		fmt.Fprintf(w, "G %s %s\n", id, strings.TrimRight(res, " "))
	})
}
