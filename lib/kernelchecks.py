"""C08: the installed filter enforces the policy on the running kernel.

Per run: (1) the property file coq/properties/C08.v is compiled against the regenerated skeletons (LoaderInst.v:
LoadFilter satisfies the loader specification; InstalledInst.v: sockFilter is the field-by-field copy);
(2) seeded policies over the harmless, argument-ignoring probe system calls are loaded through the REAL
seccomp.LoadFilter in throw-away child processes (harness `kenforce`), the sock_fprog handed to seccomp(2) is
captured by the hook and compared instruction for instruction and in length with the implementation's own compiled
program and with the extracted model's `map encode (compile ...)`; (3) the RUNNING KERNEL's answer to every probe
(raw system call with chosen 64-bit values in all six argument registers, from a locked OS thread) is compared with
the extracted `decide`: EPERM / errno data / ENOSYS for trace and x32 / success / death by SIGSYS."""
import os
import random
import shutil
import threading

from common import COQ
from corechecks import Stream, rewrite_with_replay_cmd, finish_with_proof_status
from gencases import PolicyGen, hexs, M32, M64, OPS

NATIVE = "X86_64"
PROBES = {"getpid": 39, "getppid": 110, "getuid": 102, "geteuid": 107, "getgid": 104, "getegid": 108,
          "gettid": 186, "getpgrp": 111, "sched_yield": 24}
# probe calls the Go runtime never issues by itself: only these may carry an action that ends the process
QUIET = ["getppid", "getuid", "geteuid", "getgid", "getegid", "getpgrp"]
ALLOW, LOG, ERRNO, TRACE, TRAP, KILLP, KILLT = 0x7fff0000, 0x7ffc0000, 0x50000, 0x7ff00000, 0x30000, 0x80000000, 0
SENTINEL = 305419896
# what a Go program (runtime, os/exec, the reporting channel) may need: never restricted by a generated policy
NEEDED = set("""read write open close fstat poll lseek mmap mprotect munmap brk rt_sigaction rt_sigprocmask
rt_sigreturn ioctl pread64 pwrite64 readv writev pipe madvise dup dup2 nanosleep setitimer socket clone fork vfork
execve exit wait4 kill uname fcntl getcwd chdir getrlimit setrlimit setuid setgid setpgid setsid sigaltstack prctl
arch_prctl gettid futex sched_setaffinity sched_getaffinity epoll_ctl epoll_wait getdents64 set_tid_address
restart_syscall clock_gettime clock_nanosleep exit_group tgkill tkill waitid openat newfstatat unlinkat readlinkat
faccessat faccessat2 set_robust_list epoll_pwait eventfd2 epoll_create1 dup3 pipe2 prlimit64 getrandom execveat
membarrier rseq clone3 close_range pidfd_open pidfd_send_signal statx getpid getppid getuid geteuid getgid getegid
getpgrp sched_yield timer_create timer_settime timer_delete mincore mlock seccomp""".split())

C08_THEOREMS = ["C08_sockfilter_copies_fields", "C08_handed_is_compiled", "C08_installed_is_compiled", "C08_prefix_rejected",
                "C08_oversize_rejected", "C08_loaded_is_small", "C08_kernel_decides", "C08_loaded_filter_decides", "C08_nonvacuous"]


# ------------------------------------------------------------------------------------------------ proofs
def start_proofs(ctx, prop_file, theorems, gen, insts):
    """Compile the per-run instance files and the property file in a thread (the experiment runs meanwhile)."""
    props = os.path.join(ctx.scratch, "props")
    os.makedirs(props, exist_ok=True)
    srcs = [os.path.join(COQ, "properties", x) for x in insts]
    dsts = []
    for s in srcs:
        d = os.path.join(props, os.path.basename(s))
        shutil.copy(s, d)
        dsts.append(d)

    def work():
        try:
            bad = ctx.grep_forbidden(srcs)
            if bad:
                ctx.broken = "forbidden constructs: " + "; ".join(bad)
                ctx.obligations += [t for t in theorems if t not in ctx.obligations]
                return
            res, log = ctx.check_properties_file(prop_file, theorems, gen=gen, extra_files=dsts)
            failed = [(t, d) for t, (okk, d) in res.items() if not okk]
            ctx.broken = ("; ".join("%s: %s" % (t, d) for t, d in failed) + "\n" + log[-1800:]) if failed else None
        except Exception as e:  # a crashed proof step must never look like a pass
            ctx.broken = "proof step crashed: %r" % (e,)

    th = threading.Thread(target=work)
    th.start()
    return th


def setup(ctx, prop_file, theorems, insts):
    """theories up to date, gen/ regenerated, proofs started in the background, harness built.
    Returns (gen, proof thread or None, harness ok)."""
    ctx.broken = None
    ok, msg = ctx.ensure_theories()
    if not ok:
        ctx.broken = "framework build failed: " + msg[-1500:]
        ctx.obligations += [t for t in theorems if t not in ctx.obligations]
    gen, log = ctx.regenerate()
    th = None
    if gen is None:
        ctx.broken = "regeneration failed: " + log[-2000:]
        ctx.obligations += [t for t in theorems if t not in ctx.obligations]
    elif ok:
        th = start_proofs(ctx, prop_file, theorems, gen, insts)
    h, err = ctx.build_harness()
    if not h:
        if th:
            th.join()
        ctx.violation("broken-obligation", dict(what="the harness does not build against the repository", log=err[-3000:]), False)
        return gen, th, False
    return gen, th, True


# ------------------------------------------------------------------------------------------------ generator
class EnforceGen:
    """Policies that a live Go process can run under: default allow/log; groups over the probe system calls (and,
    for long name lists, system calls no Go program needs); process-ending actions only on probe calls the Go
    runtime never issues by itself."""

    KINDS = ["names", "names", "cond", "cond", "cond", "mixed", "mixed", "long_names", "long_cond", "x_errno", "alt_many"]

    def __init__(self, rng, consts, arches, hard=True, soft_names=None, hard_names=None):
        self.rng = rng
        self.pg = PolicyGen(rng, consts, arches)
        self.table = arches[NATIVE]["table"]
        names = [s for (_, s) in self.table]
        self.exotic = sorted(n for n in names if n not in NEEDED and n not in PROBES)
        self.hard = hard
        self.soft_names = soft_names or list(PROBES)
        self.hard_names = hard_names or list(QUIET)
        for n, nr in PROBES.items():
            assert (nr, n) in self.table, "probe table mismatch for %s" % n

    def action(self, allow_hard=True):
        rng = self.rng
        r = rng.random()
        if r < 0.40:
            return ERRNO
        if r < 0.50:
            return rng.choice([ALLOW, LOG])
        if r < 0.58:
            return TRACE
        if r < 0.72:
            return ERRNO | rng.choice([1, 2, 5, 13, 38, 95, 4095, 4096, 0xffff, rng.randint(1, 4095)])
        if allow_hard and self.hard:
            return rng.choice([KILLP, KILLP, TRAP])
        return ERRNO

    @staticmethod
    def is_hard(a):
        return a in (KILLP, TRAP, KILLT)

    def pool(self, a):
        return self.hard_names if self.is_hard(a) else self.soft_names

    def conds(self, n):
        cs = [self.pg.cond() for _ in range(n)]
        if n >= 2 and self.rng.random() < 0.3:
            cs[1] = (cs[0][0], cs[1][1], cs[1][2])
        if n >= 3 and self.rng.random() < 0.3:
            cs[-1] = cs[self.rng.randrange(n - 2)]      # the very same condition again at the end of the list
        return cs

    def group(self, a, nn, nw, nc_choices):
        rng = self.rng
        pool = self.pool(a)
        picked = rng.sample(pool, min(len(pool), nn + max(1, nw) if nw else nn))
        names = picked[:nn]
        cpool = picked[nn:] or []
        nwc = []
        for _ in range(nw if cpool else 0):
            nwc.append(dict(name=rng.choice(cpool), conds=self.conds(rng.choice(nc_choices))))
        return dict(action=a, names=names, nwc=nwc)

    def policy(self, kind=None):
        rng = self.rng
        kind = kind or rng.choice(self.KINDS)
        groups = []
        if kind == "names":
            for _ in range(rng.randint(1, 4)):
                groups.append(self.group(self.action(), rng.randint(1, 4), 0, [1]))
        elif kind == "x_errno":
            # errno groups with raw data words, several groups on the same call: the first one decides
            s = rng.sample(self.soft_names, 3)
            for _ in range(rng.randint(2, 4)):
                groups.append(dict(action=ERRNO | rng.randint(1, 4095), names=rng.sample(s, rng.randint(1, 3)), nwc=[]))
        elif kind == "cond":
            for _ in range(rng.randint(1, 3)):
                groups.append(self.group(self.action(), rng.randint(0, 2), rng.randint(1, 4), [1, 1, 2, 2, 3, 4, 6]))
        elif kind == "mixed":
            # a permissive conditional group in front of a restrictive unconditional one, same system calls
            a2 = self.action()
            pool = self.pool(a2)
            s = rng.sample(pool, rng.randint(1, min(3, len(pool))))
            g1 = dict(action=rng.choice([ALLOW, LOG, ERRNO | 7]), names=[],
                      nwc=[dict(name=n, conds=self.conds(rng.choice([1, 2, 3]))) for n in s for _ in range(rng.randint(1, 2))])
            g2 = dict(action=a2, names=list(s), nwc=[])
            groups = [g1, g2]
            if rng.random() < 0.5:
                groups.append(self.group(self.action(), rng.randint(1, 3), rng.randint(0, 2), [1, 2]))
        elif kind == "long_names":
            k = rng.choice([245, 248, 250, 252, 255, 257, 260, len(self.exotic)])
            ex = rng.sample(self.exotic, min(k, len(self.exotic)))
            cut = rng.randint(0, len(ex))
            probes = rng.sample(self.soft_names, rng.randint(1, 4))
            groups.append(dict(action=ERRNO, names=ex[:cut] + probes[:1], nwc=[]))
            groups.append(dict(action=ERRNO | 13, names=ex[cut:] + probes[1:], nwc=[]))
            if rng.random() < 0.6:
                groups.append(self.group(self.action(), 0, rng.randint(1, 3), [1, 2, 3]))
        elif kind in ("long_cond", "oversize"):
            total = rng.randint(280, 700) if kind == "long_cond" else rng.randint(1150, 1400)
            left = total
            for _ in range(rng.randint(1, 3)):
                a = self.action()
                pool = self.pool(a)
                nwc = []
                for nm in rng.sample(pool, rng.randint(1, min(3, len(pool)))):
                    for _l in range(rng.randint(1, 3)):
                        nc = rng.choice([40, 60, 70, 85, 120])
                        nwc.append(dict(name=nm, conds=self.conds(nc)))
                        left -= nc
                groups.append(dict(action=a, names=[], nwc=nwc))
            while left > 0:
                g = rng.choice(groups)
                nc = min(left, rng.choice([60, 85, 120, 200]))
                g["nwc"].append(dict(name=rng.choice([w["name"] for w in g["nwc"]]), conds=self.conds(nc)))
                left -= nc
        elif kind == "alt_many":
            # two or three conditional system calls in one group with very many one-condition alternatives each: the
            # blocks straddle the reach of an 8-bit jump offset before and after bridges are inserted
            a = self.action()
            pool = self.pool(a)
            nwc = []
            for nm in rng.sample(pool, min(len(pool), rng.randint(2, 3))):
                na = rng.choice([60, 62, 63, 64, 65, 66, 84, 85, 86, 100, 127, 128])
                arg = rng.randint(0, 5)
                base = rng.choice([0, 1000, 1 << 32, 1 << 63])
                for k in range(na):
                    nwc.append(dict(name=nm, conds=[(arg, rng.choice(["Eq", "Eq", "Eq", "Set"]), base + 3 * k + 1)]))
            groups.append(dict(action=a, names=[], nwc=nwc))
            if rng.random() < 0.5:
                groups.append(self.group(self.action(), rng.randint(1, 3), 0, [1]))
        elif kind.startswith("truncation"):
            # more than 65536 instructions: sock_fprog.len (16 bits) wraps around to a small number. Lists of 100
            # equality conditions compile to 473 instructions each (bridges included); 139 lists give 65773.
            nl = int(kind.split(":")[1]) if ":" in kind else 139
            nwc = [dict(name=self.hard_names[i % len(self.hard_names)],
                        conds=[(rng.randint(0, 5), "Eq", rng.getrandbits(64)) for _ in range(100)]) for i in range(nl)]
            groups.append(dict(action=ERRNO, names=[], nwc=nwc))
        default = LOG if rng.random() < 0.12 else ALLOW
        return dict(default=default, groups=groups, arch=NATIVE, kind=kind)

    # ---------------------------------------------------------------------------------------- events
    def near(self, v):
        rng = self.rng
        return rng.choice([v, (v + 1) & M64, (v - 1) & M64, v ^ (1 << 32), v & M32, (v >> 32) << 32, (v + (1 << 32)) & M64,
                           (v - (1 << 32)) & M64, 0, M64, v ^ 1, v | (1 << 63), v & ~(1 << 63) & M64, ~v & M64,
                           ((v & M32) << 32) | (v >> 32)])

    def rand_args(self, leak):
        rng = self.rng
        return [rng.choice(leak) if leak and rng.random() < 0.25 else
                (rng.getrandbits(64) if rng.random() < 0.6 else rng.choice([0, 1, 5, M32, M64, 1 << 32, (1 << 63)]))
                for _ in range(6)]

    def events(self, pol, count):
        rng = self.rng
        num_of = {s: n for (n, s) in self.table}
        lists = []      # (nr, conds)
        plain = []
        for g in pol["groups"]:
            for nm in g["names"]:
                if nm in PROBES:
                    plain.append(PROBES[nm])
            for w in g["nwc"]:
                if w["name"] in PROBES:
                    lists.append((PROBES[w["name"]], w["conds"]))
        operands = [v for (_, cs) in lists for (_, _, v) in cs]
        leak = [v & M32 for v in operands[:30]] + [v >> 32 for v in operands[:30]] + list(PROBES.values())
        evs = []

        def add(nr, args):
            evs.append("V %d %d %d %s" % (nr, 3221225534, 0, " ".join(str(a & M64) for a in args)))

        if len(lists) > 60:
            # very many lists: aim at a sample of them, and at each sampled one also under the OTHER conditional calls' numbers
            lists = [lists[i] for i in sorted(rng.sample(range(len(lists)), 60))]
            others = sorted(set(nr for (nr, _) in lists))
            for (nr, cs) in lists[:20]:
                args = self.rand_args(leak)
                for (a, o, v) in cs:
                    args[a] = self.pg.satisfy(o, v)
                for nr2 in others:
                    if nr2 != nr:
                        add(nr2, args)
        for (nr, cs) in lists:
            if len(evs) >= count * 2 // 3:
                break
            # all conditions satisfied; then each with one condition (nearly) missed
            args = self.rand_args(leak)
            for (a, o, v) in cs:
                args[a] = self.pg.satisfy(o, v)
            add(nr, args)
            for _ in range(2 if len(cs) > 3 else len(cs)):
                b = list(args)
                (a, o, v) = rng.choice(cs)
                b[a] = self.near(v)
                add(nr, b)
        for nr in plain[:12]:
            add(nr, self.rand_args(leak))
        probes = list(PROBES.values())
        while len(evs) < count:
            r = rng.random()
            if r < 0.45 and lists:
                (nr, cs) = rng.choice(lists)
                args = self.rand_args(leak)
                for (a, o, v) in cs:
                    args[a] = self.pg.satisfy(o, v) if rng.random() < 0.8 else self.near(v)
                add(nr, args)
            elif r < 0.80:
                add(rng.choice(probes), self.rand_args(leak))
            elif r < 0.90:
                add(0x40000000 | rng.choice(probes + [0, 1000]), self.rand_args(leak))       # x32 bit
            else:
                add(rng.choice([100000, 0x3fffffff, 0x7fffffff, 0xffffffff, 5000, 0x80000000 | 39]), self.rand_args(leak))
        rng.shuffle(evs)
        return evs[:count]


# ------------------------------------------------------------------------------------------------ expectations
def expected_outcome(word, nr):
    """What the kernel does with a filter return word on a probe of system call nr: ('ret', errno) | ('kill',) | ('trap',)."""
    native = 0 if nr in PROBES.values() else 38
    act, data = word & 0xffff0000, word & 0xffff
    if act in (ALLOW, LOG):
        return ("ret", native)
    if act == ERRNO:
        return ("ret", min(data, 4095))
    if act == TRACE:
        return ("ret", 38)                 # no tracer attached: ENOSYS
    if act == TRAP:
        return ("trap",)
    if act == KILLP:
        return ("kill",)
    if act == KILLT:
        return ("killthread",)
    return ("kill",)                       # unknown action values kill the process


def word_name(w):
    names = {ALLOW: "allow", LOG: "log", ERRNO: "errno", TRACE: "trace", TRAP: "trap", KILLP: "kill_process", KILLT: "kill_thread"}
    act, data = w & 0xffff0000, w & 0xffff
    return "%s|%d (0x%x)" % (names.get(act, "action?"), data, w)


def unhex(tok):
    try:
        return bytes.fromhex(tok[1:]).decode("utf-8", "replace")
    except ValueError:
        return tok


# ------------------------------------------------------------------------------------------------ model passes
def model_pass(ctx, header, items):
    """decide for every event and the model's compiled program, through the extracted driver.
    items: list of dict(cid, tokens, events). Fills it['decide'] (list of words or None), it['model'] (text)."""
    lines = []
    for it in items:
        lines.append("P %s 1 %s %s | OK 1 ret:%d" % (it["cid"], NATIVE, it["tokens"], SENTINEL))
        lines += it["events"]
    d = ctx.run_driver(header + "\n".join(lines) + "\n")
    if d.returncode != 0:
        raise RuntimeError("driver failed: " + d.stderr[-1500:])
    by = {it["cid"]: it for it in items}
    for it in items:
        it["decide"] = [None] * len(it["events"])
        it["model"] = None
    for ln in d.stdout.splitlines():
        if ln.startswith("X "):
            raise RuntimeError("driver error: " + ln[:300])
        if ln.startswith("C "):
            f = ln.split(" ", 3)
            if f[2] == "DIFF":
                by[f[1]]["model"] = f[3].split(" ## ", 1)[0]
        elif ln.startswith("E "):
            f = ln.split()
            it = by[f[1]]
            if f[3] == "BAD":
                it["decide"][int(f[2])] = int(f[4].split(":", 1)[1]) if f[4].startswith("want=ret:") else None
            else:
                it["decide"][int(f[2])] = SENTINEL


def model_raw_pass(ctx, header, items):
    """raw encoding (model `encode`) of the model's compiled program for the given items."""
    lines = ["P %s 1 %s %s | %s" % (it["cid"], NATIVE, it["tokens"], it["model"]) for it in items]
    d = ctx.run_driver(header + "\n".join(lines) + "\n")
    by = {it["cid"]: it for it in items}
    for ln in d.stdout.splitlines():
        if ln.startswith("K "):
            f = ln.split(" ", 4)
            by[f[1]]["model_raw"] = f[4].split() if len(f) > 4 else []


# ------------------------------------------------------------------------------------------------ the experiment
def plan_children(it, max_extra=2):
    """Order the events so that those expected to end the process come last; one child runs everything up to and
    including the first of them, up to max_extra further children run one more each."""
    soft, hard = [], []
    for i, w in enumerate(it["decide"]):
        if w is None:
            continue
        (hard if expected_outcome(w, int(it["events"][i].split()[1]))[0] != "ret" else soft).append(i)
    kids = [soft + hard[:1]]
    for h in hard[1:1 + max_extra]:
        kids.append(soft[:3] + [h])
    return kids


def run_children(ctx, items):
    lines = []
    meta = {}
    for it in items:
        for k, idxs in enumerate(plan_children(it)):
            lid = "%s.%d" % (it["cid"], k)
            meta[lid] = (it, idxs)
            lines.append("L %s %d %d %d %s %s" % (lid, it["flags"], 1 if it["nnp"] else 0, it["uid"], it["prober"], it["tokens"]))
            lines += [it["events"][i] for i in idxs]
    r = ctx.run_harness(["kenforce"], "\n".join(lines) + "\n", timeout=900)
    if r.returncode != 0:
        raise RuntimeError("harness kenforce failed: " + r.stderr[-2000:])
    obs = {}
    for ln in r.stdout.splitlines():
        f = ln.split()
        if not f:
            continue
        if f[0] == "L":
            kv = dict(x.split("=", 1) for x in f[2:])
            obs[f[1]] = dict(kv=kv, filt=None, ev={})
        elif f[0] == "F":
            obs[f[1]]["filt"] = f[3:]
        elif f[0] == "E":
            obs[f[1]]["ev"][int(f[2])] = (f[3], int(f[4]), int(f[5]))
    return meta, obs


def judge(ctx, st, items, report=True):
    """Run items (policy + configuration + events) through implementation, model and kernel; returns statistics."""
    stats = dict(children=0, probes=0, compared_programs=0, nontrivial=set(), outcomes={}, nbad=0, ndiff=0, unobserved=0,
                 lens=[], load_errors=0)
    header = st.header
    # the implementation's own compiled program (harness compile) and the correspondence with the model
    plines = []
    for it in items:
        plines.append("P %s 1 %s %s" % (it["cid"], NATIVE, it["tokens"]))
    cases, _ = st.run(plines)
    model_pass(ctx, header, items)
    need_raw = []
    for it in items:
        c = cases[it["cid"]]
        it["go"] = c["go"]
        it["go_raw"] = c["kcheck"][2].split() if c.get("kcheck") else None
        it["corr"] = c["corr"]
        if it["model"] is None:
            it["model"] = "?"
        if c["corr"] == "same":
            it["model_raw"] = it["go_raw"]
        elif it["model"].startswith("OK"):
            need_raw.append(it)
        else:
            it["model_raw"] = None
    if need_raw:
        model_raw_pass(ctx, header, need_raw)
    meta, obs = run_children(ctx, items)
    reported = 0
    deferred = []      # differences without a failing input: reported only when no failing input was found at all

    def viol(kind, payload, found):
        nonlocal reported
        if not found:
            stats["ndiff"] += 1
            deferred.append((kind, payload))
            return
        stats["nbad"] += 1
        if report and reported < 3:
            reported += 1
            p = ctx.violation(kind, payload, found)
            rewrite_with_replay_cmd(ctx, p)

    def base_payload(it, idxs):
        return dict(item=dict(cid=it["cid"], tokens=it["tokens"], flags=it["flags"], nnp=it["nnp"], uid=it["uid"],
                              prober=it["prober"], events=[it["events"][i] for i in idxs], kind=it.get("kind")),
                    policy=describe_policy(it))

    for lid, (it, idxs) in meta.items():
        o = obs.get(lid)
        stats["children"] += 1
        if o is None or o["kv"].get("status", "").startswith("harness"):
            raise RuntimeError("kenforce did not report on %s: %s" % (lid, o and o["kv"]))
        kv = o["kv"]
        go_ok = it["go"].startswith("OK")
        n = int(it["go"].split()[1]) if go_ok else 0
        if lid.endswith(".0"):
            stats["lens"].append(n)
        # ---- the load itself
        if not go_ok:
            if kv["load"] == "ok":
                viol("counterexample", dict(base_payload(it, idxs), what="a policy the compiler rejects was installed", go_result=it["go"][:200]), True)
            continue
        must_load = n <= 4096 and (it["uid"] == 0 or it["nnp"])
        # a thread-sync load while another thread carries a divergent filter is refused by the kernel: an error is the
        # correct answer then (and a nil answer is judged like any other: the filter must be in force)
        may_fail = "+div" in it["prober"] and bool(it["flags"] & 1)
        if kv["load"] != "ok":
            stats["load_errors"] += 1
            if must_load and not may_fail:
                viol("counterexample", dict(base_payload(it, idxs), expected="LoadFilter returns nil (program of %d instructions, kernel limit 4096)" % n,
                                            actual="load=%s status=%s error=%s" % (kv["load"], kv["status"], unhex(kv["msg"])),
                                            what="an accepted policy within the kernel's limits does not load"), True)
        elif not must_load:
            viol("counterexample", dict(base_payload(it, idxs), expected="LoadFilter fails (program of %d instructions / no privilege)" % n,
                                        actual="load=ok", what="a filter that the kernel must refuse was reported as installed"), True)
        # ---- what was handed to the kernel (also for refused loads: the call was made)
        if int(kv["ncalls"]) >= 1:
            stats["compared_programs"] += 1
            want_len = n % 65536
            got = o["filt"] or []
            want = it["go_raw"][:want_len] if it["go_raw"] is not None else None
            problems = []
            if int(kv["ncalls"]) != 1:
                problems.append("seccomp(2) called %s times" % kv["ncalls"])
            if int(kv["op"]) != 1:
                problems.append("op=%s" % kv["op"])
            if int(kv["flags"]) != it["flags"]:
                problems.append("flags word %s instead of %d" % (kv["flags"], it["flags"]))
            if int(kv["len"]) != want_len:
                problems.append("sock_fprog.len=%s for a program of %d instructions" % (kv["len"], n))
            if want is not None and got != want:
                k = next((i for i in range(min(len(got), len(want))) if got[i] != want[i]), min(len(got), len(want)))
                problems.append("filter array differs from the compiled program at instruction %d: handed %s, compiled %s"
                                % (k, got[k] if k < len(got) else "<end>", want[k] if k < len(want) else "<end>"))
            if problems:
                viol("counterexample", dict(base_payload(it, idxs), expected="seccomp(SET_MODE_FILTER, flags, {len=%d, the %d compiled instructions})" % (want_len, n),
                                            actual="; ".join(problems),
                                            what="the program handed to the kernel is not, instruction for instruction and in length, the compiled one"), True)
            elif it["model_raw"] is not None and got != it["model_raw"][:want_len]:
                viol("correspondence", dict(base_payload(it, idxs), stream="captured sock_fprog vs model `map encode (compile ...)`",
                                            model_result=it["model"][:2000], go_result=it["go"][:2000],
                                            what="the installed program equals the implementation's compiled program but differs from the model's; no probe was found on which the kernel's answer violates the specification"), False)
        elif kv["load"] == "ok":
            viol("counterexample", dict(base_payload(it, idxs), what="LoadFilter returned nil without calling seccomp(2)"), True)
        if kv["load"] != "ok":
            continue
        # ---- the kernel's decisions
        ended = False
        for pos, i in enumerate(idxs):
            w = it["decide"][i]
            nr = int(it["events"][i].split()[1])
            exp = expected_outcome(w, nr)
            state, en, r1 = o["ev"].get(pos, ("notrun", 0, 0))
            if state == "done":
                if en == 0 and r1 >= (1 << 64) - 4095:
                    en = (1 << 64) - r1          # Go's RawSyscall6 does not treat -4095 as an error; the kernel does
                act = ("ret", en)
            elif state == "started":
                if kv["status"] == "signal:31":
                    act = ("kill",)
                elif kv["status"] == "exit:2":
                    act = ("trap",)            # SIGSYS delivered: the Go runtime ends the process with status 2
                else:
                    act = ("died", kv["status"])
                ended = True
            else:
                stats["unobserved"] += 1
                if not ended:
                    act = ("notrun", kv["status"])
                else:
                    continue
            stats["probes"] += 1
            key = "%s->%s" % ("/".join(map(str, exp)), "/".join(map(str, act)))
            stats["outcomes"][key] = stats["outcomes"].get(key, 0) + 1
            if w != it["default_word"]:
                stats["nontrivial"].add((it["tokens"], it["events"][i]))
            if act != exp:
                viol("counterexample", dict(base_payload(it, [i]), event=it["events"][i], expected="%s => %s" % (word_name(w), "/".join(map(str, exp))),
                                            actual="/".join(map(str, act)) + " (child status %s)" % kv["status"],
                                            what="the running kernel's answer to this probe differs from the policy's decision"), True)
                if ended:
                    break
        # ---- correspondence of the compiled program (reported only when nothing else is wrong)
        if it["corr"] == "DIFF" and lid.endswith(".0"):
            viol("correspondence", dict(base_payload(it, idxs), stream="compile: model vs implementation (C08 policies)",
                                        model_result=it["model"][:2000], go_result=it["go"][:2000],
                                        what="the implementation's compiled program differs from the model's; no probe was found on which the kernel's answer violates the specification"), False)
    if report and stats["nbad"] == 0:
        for (kind, payload) in deferred[:3]:
            p = ctx.violation(kind, payload, False)
            rewrite_with_replay_cmd(ctx, p)
    return stats


def describe_policy(it):
    return dict(kind=it.get("kind"), flags=it["flags"], no_new_privs=it["nnp"], uid=it["uid"], prober_thread=it["prober"])


def make_items(ctx, rng, consts, arches, npol, nev):
    eg = EnforceGen(rng, consts, arches)
    items = []
    dist = {}
    kinds = list(EnforceGen.KINDS)
    for i in range(npol):
        kind = "oversize" if i == 7 else rng.choice(kinds)
        if ctx.tier != "quick" and i in (11, 12):
            kind = "truncation:%d" % (139 if i == 11 else 140)
        pol = eg.policy(kind)
        flags = rng.choice([0, 0, 1, 1, 1, 2, 3])
        nnp = rng.random() < 0.5
        uid = 65534 if (nnp and rng.random() < 0.15) else 0
        prober = "other" if (flags & 1 and rng.random() < 0.7) else "same"
        if kind != "oversize" and not kind.startswith("truncation"):
            r = rng.random()
            if flags & 1 and r < 0.25:
                prober += "+div"      # another thread carries a filter of its own: the kernel refuses the thread-sync
            elif not flags & 1 and r < 0.2:
                prober += "+race"     # another thread loads a different policy at the same time
            elif r > 0.88:
                prober += "+twice"    # the loading thread already carries an (almost never matching) filter
            if "+race" not in prober and rng.random() < 0.15:
                prober += "+gc"       # garbage collections and same-size allocations between prctl and seccomp
            if rng.random() < 0.15:
                prober += "+edited"   # the loaded Policy value was assembled and dumped before, then edited in place
        dw = pol["default"]
        items.append(dict(cid="k%d" % i, tokens=PolicyGen.tokens(pol), events=eg.events(pol, nev if kind != "oversize" and not kind.startswith("truncation") else 4),
                          flags=flags, nnp=nnp, uid=uid, prober=prober, kind=kind, default_word=dw))
        key = "%s/flags=%d/nnp=%d%s/%s" % (kind, flags, nnp, "/nobody" if uid else "", prober)
        dist[kind.split(":")[0]] = dist.get(kind.split(":")[0], 0) + 1
        dist["flags=%d" % flags] = dist.get("flags=%d" % flags, 0) + 1
        dist["nnp=%d" % nnp] = dist.get("nnp=%d" % nnp, 0) + 1
        dist["prober=" + prober] = dist.get("prober=" + prober, 0) + 1
        if uid:
            dist["uid=nobody"] = dist.get("uid=nobody", 0) + 1
    return items, dist


def check_C08(ctx, replay=None):
    rng = random.Random(ctx.seed * 1000003 + 8008)
    gen, th, ok = setup(ctx, "C08.v", C08_THEOREMS, ["LoaderInst.v", "InstalledInst.v"])
    if not ok:
        return
    st = Stream(ctx)
    consts, arches = st.load_header()
    if replay and replay.get("item"):
        r = replay["item"]
        items = [dict(cid="r0", tokens=r["tokens"], events=r["events"], flags=r["flags"], nnp=r["nnp"], uid=r["uid"],
                      prober=r["prober"], kind=r.get("kind"), default_word=int(r["tokens"].split()[0]))]
        dist = {"replay": 1}
    else:
        q = ctx.tier == "quick"
        items, dist = make_items(ctx, rng, consts, arches, 110 if q else 1200, 60 if q else 90)
    stats = judge(ctx, st, items)
    if th:
        th.join()
    lens = stats["lens"]
    ctx.coverage.update(dict(
        evaluations=stats["probes"] + stats["compared_programs"],
        probes_judged=stats["probes"], programs_compared=stats["compared_programs"], children=stats["children"],
        traces_validated_against_impl=stats["children"],
        distinct_nontrivial=len(stats["nontrivial"]),
        rule="seeded policies over the nine harmless probe system calls (names only; conditions on all six arguments with operands straddling the 32-bit halves; several groups with the same call, first match decides; name lists over 255 and condition lists over 1000 instructions; one program over 4096 instructions that must be refused), default allow/log, actions errno / raw errno data words / allow / log / trace / trap / kill_process, flags in {0,tsync,log,tsync|log}, with and without no_new_privs, as root and (with no_new_privs) as uid nobody, probes from the loading thread or from a second OS thread that existed before the load; each policy loaded by the real LoadFilter in a fresh child - plainly, or with another thread carrying a divergent filter (+div), another thread loading at the same moment (+race), as the thread's second filter (+twice), with two garbage collections and a burst of program-sized allocations between the prctl and seccomp steps (+gc), or through a Policy value that was assembled and dumped with other rules before and then edited in place (+edited); the captured sock_fprog compared in length and instruction by instruction with the implementation's compiled program and the model's; every probe's errno/result/death compared with the extracted decide. non-trivial = distinct (policy, probe) pairs whose specified decision differs from the default action's",
        counterexamples=stats["nbad"], correspondence_differences=stats["ndiff"], probes_not_observed=stats["unobserved"],
        input_distribution=dict(cases=dist, outcomes=stats["outcomes"], load_refused=stats["load_errors"],
                                program_length=dict(min=min(lens) if lens else 0, max=max(lens) if lens else 0,
                                                    over_255=sum(1 for x in lens if x > 255), over_1000=sum(1 for x in lens if x > 1000),
                                                    over_4096=sum(1 for x in lens if x > 4096))),
        samples=["L %s %d %d %d %s %s" % (it["cid"], it["flags"], it["nnp"], it["uid"], it["prober"], it["tokens"][:300]) for it in items[:2]]
                + [items[0]["events"][0]] if items and items[0]["events"] else [],
    ))
    ctx.coverage["checker_cmd"] = ("coqc 8.16.1 (full .vo) on coq/theories + regenerated gen/ + coq/properties/LoaderInst.v (per-run proof that the "
                                   "regenerated LoadFilter skeleton satisfies load_spec) + InstalledInst.v (sockFilter recognised as the field copy) + "
                                   "coq/properties/C08.v; Print Assumptions per theorem")
    ctx.assumptions += [
        "PARTIAL: the theorems are about the kernel MODEL (KernelState.do_seccomp, Raw.run_raw, KernelCheck.kernel_check); that Linux reads sock_fprog.len instructions, runs classic BPF on the little-endian seccomp_data as run_raw says and maps return words to EPERM/errno data, ENOSYS (trace without tracer), SIGSYS (trap, kill_process) or success is validated by this experiment on the host kernel only",
        "programs of 2^32 instructions or more are outside the oversize theorem (bpf.Jump.Skip is a uint32)",
        "kill_thread is not probed (the Go runtime cannot lose an OS thread); actions that end the process are probed only on system calls the Go runtime never issues by itself",
    ]
    finish_with_proof_status(ctx, stats["nbad"], "C08 theorems over the regenerated loader skeletons")


CHECKS = {"C08": check_C08}
