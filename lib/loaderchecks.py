"""Checks for the loader: C09 (nil means in force), C10 (thread-sync covers every thread), C11 (no_new_privs).

Per run: (1) the regenerated skeletons of seccomp_linux.go are proved to satisfy the loader specification
(coq/properties/LoaderInst.v) and the property file is compiled against that instance; (2) seeded load
histories are executed by the real LoadFilter / Supported in fresh child processes on the running kernel
(harness command loadhist) and replayed step by step on the model inside Coq (LoaderReplay.replay over the
interpretation of the regenerated skeletons): every per-step observable is compared; (3) the property text is
checked directly on the observations, independently of the model.

History language (operations separated by ';'):
  actor K | bg K spin|sleep|pipe|spawn | load I aK|g|gm NNP FLAGS ok|invalid|nodefault|oversize | supp aK|g
  | drop | exit K | wake | probe | sleep MS
"""
import hashlib
import os
import platform
import random
import re
import shutil
import threading
import time

import ambient
from common import COQ, GOENV
from corechecks import proof_step, finish_with_proof_status, rewrite_with_replay_cmd

TSYNC, LOG = 1, 2

C09_THEOREMS = ["C09_load_nil_in_force", "C09_load_unattached_is_error", "C09_declined_unknown_flags", "C09_declined_oversize",
                "C09_declined_unprivileged", "C09_declined_bad_program", "C09_declined_thread_sync",
                "C09_assemble_fail_no_effect", "C09_supported_pure", "C09_supported_answers", "C09_histories_wellformed",
                "C09_gated_kernel_agrees_where_open", "C09_refused_by_earlier_filter_is_error", "C09_supported_pure_gated"]
C10_THEOREMS = ["C10_tsync_covers_all", "C10_covered_preserved", "C10_no_tsync_untouched", "C10_flag_passthrough"]
C11_THEOREMS = ["C11_nnp_before_install_same_thread", "C11_unprivileged_can_load", "C11_nnp_untouched",
                "C11_unprivileged_without_nnp_fails", "C11_bit_refused_means_no_install", "C11_unpinned_refuted"]

# kinds of differences reported by LoaderReplay.replay that each property speaks about (DESIGN 5.4)
DIFF_KINDS = {
    "C09": {1, 2, 7, 8, 10, 12, 13},
    "C10": {2, 4, 5, 6, 7, 8, 10, 11, 13},
    "C11": {1, 3, 9, 13},
}
KIND_NAMES = {1: "result of LoadFilter (1 = nil)", 2: "number of seccomp(2) calls", 3: "thread of the seccomp(2) call", 4: "op of the seccomp(2) call",
              5: "flags word of the seccomp(2) call", 6: "sock_fprog.len", 7: "Seccomp mode of a thread", 8: "Seccomp_filters of a thread",
              9: "NoNewPrivs of a thread", 10: "set of filters active on a thread", 11: "new task without a possible parent",
              12: "answer of Supported", 13: "the model is stuck on the regenerated skeleton"}


# ------------------------------------------------------------------------------------------------ proofs
def start_proofs(ctx, prop_file, theorems, gen):
    """Compile LoaderInst.v (the per-run proof that the regenerated skeletons satisfy the specification) and the
    property file, in a thread (the harness runs meanwhile)."""
    props = os.path.join(ctx.scratch, "props")
    os.makedirs(props, exist_ok=True)
    # C09 also needs the instance for Supported / SetNoNewPrivs; C10 and C11 quantify over any probe function
    names = ["LoaderInst.v"] + (["SupportedInst.v"] if prop_file == "C09.v" else [])
    srcs = [os.path.join(COQ, "properties", n) for n in names]
    insts = [os.path.join(props, n) for n in names]
    for a, b in zip(srcs, insts):
        shutil.copy(a, b)
    state = {}

    def work():
        try:
            bad = ctx.grep_forbidden(srcs)
            if bad:
                ctx.broken = "forbidden constructs: " + "; ".join(bad)
                ctx.obligations += [t for t in theorems if t not in ctx.obligations]
                return
            res, log = ctx.check_properties_file(prop_file, theorems, gen=gen, extra_files=insts)
            failed = [(t, d) for t, (okk, d) in res.items() if not okk]
            if failed:
                ctx.broken = "; ".join("%s: %s" % (t, d) for t, d in failed) + "\n" + log[-1800:]
            else:
                ctx.broken = None
        except Exception as e:  # never let a crashed proof step look like a pass
            ctx.broken = "proof step crashed: %r" % (e,)
        state["done"] = True

    th = threading.Thread(target=work)
    th.start()
    return th


def setup(ctx, prop_file, theorems):
    ok, msg = ctx.ensure_theories()
    if not ok:
        ctx.broken = "framework build failed: " + msg[-1500:]
        ctx.obligations += [t for t in theorems if t not in ctx.obligations]
    gen, log = ctx.regenerate()
    th = None
    if gen is None:
        ctx.broken = "regeneration failed: " + log[-2000:]
        ctx.obligations += [t for t in theorems if t not in ctx.obligations]
    elif ok:
        th = start_proofs(ctx, prop_file, theorems, gen)
    h, err = ctx.build_harness()
    if not h:
        if th:
            th.join()
        ctx.violation("broken-obligation", dict(what="the harness does not build against the repository", log=err[-3000:]), False)
        return gen, th, False
    return gen, th, True


# ------------------------------------------------------------------------------------------------ running histories
def host_machine():
    return platform.machine() or "x86_64"


def run_histories(ctx, hists, jobs=8, force_hostile=None):
    """hists: list of (id, text). Returns dict id -> parsed observation."""
    # every fourth history runs in hostile surroundings (lib/ambient.py): the environment variables the sources could
    # ask for are set, uname(2) reports a 2.6 kernel (personality UNAME26), no file can be opened while a plain load
    # runs. The kernel's answers to seccomp(2)/prctl(2) do not depend on any of it, so the same model judges them.
    def hostile_id(i):
        if force_hostile is not None:
            return force_hostile
        return int(hashlib.sha256(str(i).encode()).hexdigest(), 16) % 4 == 0
    pre = [p for p in ambient.personality_prefixes() if "--uname-2.6" in p][:1]
    pre = [["setarch", host_machine(), "--uname-2.6"]] if pre else []
    parts = [([h for h in hists if not hostile_id(h[0])], None, None)]
    hh = [h for h in hists if hostile_id(h[0])]
    # ... and half of those with a single P (GOMAXPROCS=1: what a one-CPU machine or cpuset gives a Go process)
    one = [h for h in hh if int(hashlib.sha256(str(h[0]).encode()).hexdigest(), 16) % 8 == 0 or force_hostile]
    hh = [h for h in hh if h not in one]
    if hh:
        parts.append((hh, dict(ambient.noise_env(GOENV), VERIF_LOAD_NOFILE="1"), pre[0] if pre else None))
    if one:
        parts.append((one, dict(ambient.noise_env(GOENV), VERIF_LOAD_NOFILE="1", GOMAXPROCS="1"), pre[0] if pre else None))
    stdout = ""
    hostile = set()
    for (hs, env, prefix) in parts:
        if not hs:
            continue
        inp = "".join("%s %s\n" % (i, t) for i, t in hs)
        r = ctx.run_harness(["loadhist", str(jobs)], inp, timeout=900, env=env, prefix=prefix)
        if r.returncode != 0:
            raise RuntimeError("harness loadhist failed: " + r.stderr[-2000:])
        stdout += r.stdout
        if env:
            hostile.update(str(i) for i, _ in hs)
    out = {}
    cur = None
    for ln in stdout.splitlines():
        f = ln.split()
        if not f:
            continue
        if f[0] == "H":
            cur = dict(id=f[1], text=ln.split(" ", 2)[2], steps={}, K={}, X=[], uid=[], exit=None, ended=False,
                       surroundings="hostile (environment variables set, uname reports 2.6, no descriptors during plain loads; GOMAXPROCS=1 for every second such history and in replays)" if f[1] in hostile else "plain")
            out[f[1]] = cur
            continue
        if cur is None:
            continue
        tag = f[0]
        if tag == "Z":
            cur["exit"] = f[2].split("=", 1)[1]
        elif tag == "E":
            cur["ended"] = True
        elif tag == "X":
            cur["X"].append(ln)
        elif tag == "U":
            cur["uid"].append(int(f[1]))
        elif tag == "K":
            cur["K"][int(f[1])] = (int(f[2]), f[3])
        elif tag in ("S", "R", "C", "M", "T", "P", "W", "G", "B", "R2", "G2"):
            st = cur["steps"].setdefault(int(f[1]), dict(op=None, R=None, C=[], M=None, T={}, P={}, W={}, G=None, B={}, R2=None, G2=None))
            if tag == "S":
                st["op"] = f[2:]
            elif tag == "R":
                st["R"] = f[2:]
            elif tag == "R2":
                st["R2"] = f[2:]
            elif tag == "G2":
                n = int(f[2])
                st["G2"] = (n, [tuple(int(x) for x in t.split(":")) for t in f[3:]])
            elif tag == "C":
                st["C"].append(tuple(int(x) for x in f[2:7]))      # tid op flags hasarg len
            elif tag == "M":
                st["M"] = (int(f[2]), int(f[3]))
            elif tag == "T":
                st["T"][int(f[2])] = (int(f[3]), int(f[4]), int(f[5]))     # seccomp filters nnp
            elif tag == "B":
                st["B"][int(f[2])] = (int(f[3]), int(f[4]), int(f[5]))
            elif tag == "P":
                st["P"][int(f[2])] = parse_set(f[3])
            elif tag == "W":
                st["W"][int(f[2])] = parse_set(f[3])
            elif tag == "G":
                n = int(f[2])
                st["G"] = (n, [tuple(int(x) for x in t.split(":")) for t in f[3:]])
    return out


def parse_set(tok):
    return [] if tok == "-" else [int(x) for x in tok.split(",")]


# ------------------------------------------------------------------------------------------------ model replay in Coq
CASES_PREAMBLE = """From Coq Require Import List NArith Bool String.
From Seccomp Require Import Machine Raw Result KernelCheck KernelState Skeleton Loader LoaderReplay.
From Gen Require Import GenSkeletons GenConsts.
Import ListNotations.
Close Scope string_scope.
Open Scope list_scope.
Open Scope N_scope.
Definition gen_target : option target_consts :=
  find (fun t => String.eqb (tc_goos t) "linux" && String.eqb (tc_goarch t) "amd64") targets.
Definition gen_lc : lconsts :=
  match gen_target with
  | Some t => {| lc_set_mode_strict := tc_seccompSetModeStrict t; lc_set_mode_filter := tc_seccompSetModeFilter t;
                 lc_pr_set_nnp := tc_prSetNoNewPrivs t; lc_tsync := tc_FilterFlagTSync t; lc_log := tc_FilterFlagLog t |}
  | None => {| lc_set_mode_strict := 99; lc_set_mode_filter := 99; lc_pr_set_nnp := 99; lc_tsync := 99; lc_log := 99 |}
  end.
(* the kernel on which observed histories are replayed filters the loader's own system calls too (KernelState: gate) *)
Definition kload := load_sem kstate do_seccomp_g do_prctl_g seccomp_funs gen_lc.
Definition ksupported := supported_sem kstate do_seccomp_g do_prctl_g seccomp_funs gen_lc.
Definition ot (t m c:N) (n:bool) (a:option (list N)) : obs_thread := {| o_tid := t; o_mode := m; o_count := c; o_nnp := n; o_active := a |}.
Definition sf (c jt jf k:N) : sock_filter := {| sf_code := c; sf_jt := jt; sf_jf := jf; sf_k := k |}.
Definition fl (nnp:bool) (flag:N) (p:res (list instr)) : filt := {| f_nnp := nnp; f_flag := flag; f_prog := p |}.
Definition st (o:rop) (b l:list obs_thread) : rstep := {| r_op := o; r_pre := b; r_threads := l |}.
"""


def coq_threads(T, P):
    items = []
    for tid in sorted(T):
        s, f, n = T[tid]
        act = "None"
        if tid in P:
            act = "(Some [%s])" % "; ".join(str(x) for x in sorted(P[tid]))
        items.append("ot %d %d %d %s %s" % (tid, s, f, "true" if n else "false", act))
    return "[" + "; ".join(items) + "]"


def who_thread(h, who, stp, first_tid):
    """(tid, pinned, sched) for the model"""
    if who.startswith("a"):
        k = int(who[1:])
        tid = h["K"].get(k, (first_tid, ""))[0]
        return tid, True, "(fun _ => %d)" % tid
    calls = stp["C"]
    tid = calls[-1][0] if calls else (stp["M"][1] if stp["M"] else first_tid)
    return tid, False, "(fun _ => %d)" % tid


def coq_history(h):
    """Coq text of (priv, init threads, steps) for one observed history, or None if the observation is unusable."""
    steps = h["steps"]
    if -1 not in steps or not steps[-1]["T"] or uses_silent(h):
        return None
    priv = "true" if (h["uid"] and h["uid"][0] == 0) else "false"
    init = coq_threads(steps[-1]["T"], {})
    first_tid = min(steps[-1]["T"])
    defs = []
    rows = []
    prev = -1
    for i in sorted(k for k in steps if k >= 0):
        stp = steps[i]
        op = stp["op"] or ["nop"]
        rop = "RNone"
        if op[0] == "load" and stp["R"] is not None:
            idx = int(op[1])
            tid, pinned, sched = who_thread(h, op[2], stp, first_tid)
            nnp = "true" if op[3] == "1" else "false"
            flags = int(op[4])
            if stp["G"] is None or stp["G"][0] < 0:
                prog = "(Error EProblems)"
            else:
                name = "prog_%s_%d" % (h["id"], i)
                defs.append("Definition %s : list instr := decode_prog [%s]." % (
                    name, "; ".join("sf %d %d %d %d" % t for t in stp["G"][1])))
                prog = "(Ok %s)" % name
            calls = "[" + "; ".join("(%d, %d, %d, %d)" % (c[0], c[1], c[2], c[4] if c[3] else 0) for c in stp["C"]) + "]"
            rop = "RLoad %d %d %s %s (fl %s %d %s) %s %s" % (idx, tid, "true" if pinned else "false", sched, nnp, flags, prog,
                                                       "true" if stp["R"][0] == "nil" else "false", calls)
        elif op[0] == "supp" and stp["R"] is not None:
            tid, pinned, sched = who_thread(h, op[1], stp, first_tid)
            calls = "[" + "; ".join("(%d, %d, %d, %d)" % (c[0], c[1], c[2], c[4] if c[3] else 0) for c in stp["C"]) + "]"
            rop = "RSupported %d %s %s %s %s" % (tid, "true" if pinned else "false", sched, "true" if stp["R"][1] == "true" else "false", calls)
        elif op[0] == "drop":
            rop = "RDrop"
        P = dict(stp["P"])
        # tasks the operation ran on that did not exist at the previous step (the Go runtime started them in
        # between): known to the model before the operation, in the state they had then
        pre = dict(stp["B"])
        prevT = steps[prev]["T"] if prev is not None else {}
        for c in stp["C"]:
            t = c[0]
            if t not in prevT and t not in pre and t in stp["T"]:
                s_, f_, n_ = stp["T"][t]
                if op[0] == "load" and stp["R"] is not None and stp["R"][0] == "nil":
                    f_ -= 1
                    s_ = 2 if f_ > 0 else 0
                pre[t] = (s_, f_, n_)
        pre = {t: v for t, v in pre.items() if t not in prevT}
        rows.append("st (%s) %s %s" % (rop, coq_threads(pre, {}), coq_threads(stp["T"], P)))
        prev = i
    text = "\n".join(defs) + "\nDefinition res_%s := Eval vm_compute in replay kload ksupported %s %s [\n %s\n].\nPrint res_%s.\n" % (
        h["id"], priv, init, ";\n ".join(rows), h["id"])
    return text


def replay_in_coq(ctx, gen, obs):
    """Returns dict id -> list of diffs (step, tid, kind, model, observed), and the number of steps evaluated."""
    body = CASES_PREAMBLE
    usable = []
    nsteps = 0
    for hid, h in obs.items():
        t = coq_history(h)
        if t is None:
            continue
        usable.append(hid)
        nsteps += len([k for k in h["steps"] if k >= 0])
        body += t
    d = os.path.join(ctx.scratch, "cases")
    os.makedirs(d, exist_ok=True)
    path = os.path.join(d, "loadercases_%s.v" % ctx.prop)
    with open(path, "w") as f:
        f.write(body)
    ok, log = ctx.coqc([path], gen=gen, timeout=1200)
    if not ok:
        return None, log, 0
    diffs = {}
    for hid in usable:
        m = re.search(r"res_%s\s*=\s*(.*?)\n\s*:\s*list diff" % re.escape(hid), log, re.S)
        if not m:
            diffs[hid] = None
            continue
        diffs[hid] = [tuple(int(x) for x in t) for t in re.findall(r"\((\d+),\s*(\d+),\s*(\d+),\s*(\d+),\s*(\d+)\)", m.group(1))]
    return diffs, log, nsteps


# ------------------------------------------------------------------------------------------------ direct checks
# policies of the history language: SILENT ones are valid but cannot answer the probe (their presence shows in the task's
# filter count only); the deny* ones make seccomp(2) / prctl(2) itself fail for the thread from then on. The direct rules
# skip the probe-based judgements for them; the model replay handles them like any other (it runs the programs).
SILENT = ("nonames", "allowall", "denyseccomp", "denyseccomp38", "denyprctl")
VALID = ("ok", "big", "mid", "midnames") + SILENT


def uses_silent(h):
    """Histories the model does not replay: those with two OVERLAPPING loads (pload) - the replay is sequential; they are
    judged by the direct rules. (Decision-free filters, repeated loads and filters that deny seccomp(2) / prctl(2) are
    replayed: the replay runs the installed programs and the kernel model filters the loader's own calls.)"""
    return any(s["op"] and s["op"][0] == "pload" for s in h["steps"].values())


def load_steps(h):
    """yield (i, step, pre) for every load / supp step with a result; pre = previous snapshot step"""
    keys = sorted(h["steps"])
    for n, i in enumerate(keys):
        if i < 0:
            continue
        stp = h["steps"][i]
        pre = h["steps"][keys[n - 1]] if n > 0 else None
        if stp["op"] and stp["op"][0] in ("load", "supp") and stp["R"] is not None and pre is not None:
            yield i, stp, pre
        if stp["op"] and stp["op"][0] == "pload" and stp["R"] is not None and stp["R2"] is not None and pre is not None:
            # two overlapping loads: each is judged like a load, with the calls its own thread made
            for k, (rk, gk) in enumerate((("R", "G"), ("R2", "G2"))):
                op = ["load"] + stp["op"][1 + 5 * k:6 + 5 * k]
                who = op[2]
                tid = h["K"][int(who[1:])][0] if who.startswith("a") and int(who[1:]) in h["K"] else None
                yield i, dict(stp, op=op, R=stp[rk], G=stp[gk], C=[c for c in stp["C"] if c[0] == tid], concurrent=True), pre


def caller_tid(h, who, stp):
    if who.startswith("a"):
        k = int(who[1:])
        return h["K"][k][0] if k in h["K"] else None
    if stp["C"]:
        return stp["C"][-1][0]
    return None


def privileged_at(h, i):
    """root until a 'drop' operation at an earlier step"""
    for j in sorted(h["steps"]):
        if 0 <= j < i and h["steps"][j]["op"] and h["steps"][j]["op"][0] == "drop":
            return False
    return bool(h["uid"]) and h["uid"][0] == 0


def later_steps(h, i):
    return [h["steps"][j] for j in sorted(h["steps"]) if j > i]


def direct_C09(h):
    bad = []
    for i, stp, pre in load_steps(h):
        op = stp["op"]
        T0, T1, P0, P1 = pre["T"], stp["T"], pre["P"], stp["P"]
        if op[0] == "supp":
            for t in T1:
                if t in T0 and T0[t] != T1[t]:
                    bad.append(dict(step=i, what="Supported() changed the state of thread %d" % t, expected=list(T0[t]), actual=list(T1[t])))
            for t in P1:
                if t in P0 and P0[t] != P1[t]:
                    bad.append(dict(step=i, what="Supported() changed the filters active on thread %d" % t, expected=P0[t], actual=P1[t]))
            continue
        idx, who, flags, pol = int(op[1]), op[2], int(op[4]), op[5]
        nil = stp["R"][0] == "nil"
        ct = caller_tid(h, who, stp)
        B = stp["B"]
        # a task that did not exist at the previous step (started by the Go runtime in between) is compared with
        # what it looked like right before the call, if that was observed; otherwise it counts as "may have grown"
        grew = [t for t in T1 if (t in T0 and T1[t][1] > T0[t][1]) or
                (t not in T0 and T1[t][1] > (B[t][1] if t in B else 0))]
        if nil:
            if ct is None or ct not in T1:
                bad.append(dict(step=i, what="LoadFilter returned nil without any seccomp(2) call", expected="a filter in force", actual="no call observed"))
            else:
                before = T0[ct][1] if ct in T0 else (B[ct][1] if ct in B else None)
                if stp.get("concurrent") and before is not None and T1[ct][0] == 2 and T1[ct][1] > before:
                    pass        # the overlapping load may have added its filter to this thread too (thread-sync)
                elif T1[ct][0] != 2 or (T1[ct][1] != before + 1 if before is not None else T1[ct][1] < 1):
                    bad.append(dict(step=i, what="LoadFilter returned nil but no filter was added to the calling thread %d" % ct,
                                    expected="Seccomp: 2, Seccomp_filters: %s" % (before + 1 if before is not None else ">= 1"),
                                    actual="Seccomp: %d, Seccomp_filters: %d" % (T1[ct][0], T1[ct][1])))
                if ct in P1 and idx not in P1[ct] and pol not in SILENT:
                    bad.append(dict(step=i, what="LoadFilter returned nil but the new filter does not answer the probe on the calling thread %d" % ct,
                                    expected="filter %d active" % idx, actual=P1[ct]))
                if flags & TSYNC:
                    for t in T1:
                        if stp.get("concurrent"):
                            break
                        if T1[t][0] != 2 or T1[t][1] != T1[ct][1]:
                            bad.append(dict(step=i, what="thread-sync load returned nil but thread %d does not carry the caller's filters" % t,
                                            expected=list(T1[ct]), actual=list(T1[t])))
                    for t in P1:
                        if idx not in P1[t] and pol not in SILENT:
                            bad.append(dict(step=i, what="thread-sync load returned nil but the filter is not active on thread %d" % t,
                                            expected="filter %d active" % idx, actual=P1[t]))
        if pol in ("invalid", "nodefault"):
            if nil:
                bad.append(dict(step=i, what="LoadFilter returned nil for an invalid policy", expected="error", actual="nil"))
            if stp["C"]:
                bad.append(dict(step=i, what="a load of an invalid policy reached the kernel", expected="no seccomp(2) call", actual=stp["C"]))
            for t in T1:
                if t in T0 and T0[t] != T1[t]:
                    bad.append(dict(step=i, what="a load that failed before reaching the kernel changed thread %d (Seccomp, Seccomp_filters, NoNewPrivs)" % t,
                                    expected=list(T0[t]), actual=list(T1[t])))
        # the kernel attached nothing anywhere => an error must be returned
        if not grew and nil:
            bad.append(dict(step=i, what="the kernel attached no filter but LoadFilter returned nil", expected="a non-nil error", actual="nil"))
    return bad


def direct_C10(h):
    bad = []
    for i, stp, pre in load_steps(h):
        op = stp["op"]
        if op[0] != "load":
            continue
        idx, who, flags, pol = int(op[1]), op[2], int(op[4]), op[5]
        nil = stp["R"][0] == "nil"
        T0, T1, P0, P1 = pre["T"], stp["T"], pre["P"], stp["P"]
        ct = caller_tid(h, who, stp)
        # the flag word and the program length reach the kernel unmodified
        if stp["G"] is not None and stp["G"][0] >= 0:
            if len(stp["C"]) != 1:
                bad.append(dict(step=i, what="LoadFilter of a valid policy made %d seccomp(2) calls" % len(stp["C"]), expected=1, actual=len(stp["C"])))
            for c in stp["C"]:
                if c[1] != 1 or c[2] != flags:
                    bad.append(dict(step=i, what="the flag word did not reach the kernel unmodified", expected=dict(op=1, flags=flags), actual=dict(op=c[1], flags=c[2])))
                if c[3] != 1 or c[4] != (stp["G"][0] & 0xffff):
                    bad.append(dict(step=i, what="sock_fprog.len differs from the compiled program's length", expected=stp["G"][0] & 0xffff, actual=c[4]))
        if nil and flags & TSYNC:
            for t in T1:
                if T1[t][0] != 2 or T1[t][1] < 1:
                    bad.append(dict(step=i, what="thread-sync load returned nil but thread %d existing at that moment has no filter" % t,
                                    expected="Seccomp: 2", actual=list(T1[t])))
            for later in [stp] + later_steps(h, i):
                for t, s in list(later["P"].items()) + list(later["W"].items()):
                    if idx not in s and pol not in SILENT:
                        bad.append(dict(step=i, what="thread-sync load returned nil but a system call begun afterwards on thread %d is not filtered" % t,
                                        expected="filter %d active" % idx, actual=s))
                for t in later["T"]:
                    if later["T"][t][0] != 2 or later["T"][t][1] < 1:
                        bad.append(dict(step=i, what="thread %d created after a successful thread-sync load has no filter" % t,
                                        expected="Seccomp: 2", actual=list(later["T"][t])))
        if not (flags & TSYNC) and not stp.get("concurrent"):
            for t in T1:
                if t != ct and t in T0 and (T0[t][0], T0[t][1]) != (T1[t][0], T1[t][1]):
                    bad.append(dict(step=i, what="a load without thread-sync changed the filters of another thread (%d)" % t,
                                    expected=list(T0[t]), actual=list(T1[t])))
            for t in P1:
                if t != ct and t in P0 and P0[t] != P1[t]:
                    bad.append(dict(step=i, what="a load without thread-sync changed the filters active on another thread (%d)" % t,
                                    expected=P0[t], actual=P1[t]))
    return bad


def direct_C11(h):
    bad = []
    for i, stp, pre in load_steps(h):
        op = stp["op"]
        if op[0] != "load":
            continue
        idx, who, nnp, flags, pol = int(op[1]), op[2], op[3] == "1", int(op[4]), op[5]
        nil = stp["R"][0] == "nil"
        T0, T1 = pre["T"], stp["T"]
        ct = caller_tid(h, who, stp)
        priv = privileged_at(h, i)
        valid = pol in VALID and not any(st2["op"] and st2["op"][0] == "load" and st2["op"][5].startswith("deny")
                                         for j, st2 in h["steps"].items() if 0 <= j < i)
        if nnp and stp["C"]:
            st_tid = stp["C"][-1][0]
            if st_tid in T1 and T1[st_tid][2] != 1:
                bad.append(dict(step=i, what="NoNewPrivs was requested but the thread that called seccomp(2) (%d) does not have the bit" % st_tid,
                                expected="NoNewPrivs: 1", actual="NoNewPrivs: %d" % T1[st_tid][2]))
        if nnp and nil and not stp["C"] and who.startswith("a") and ct in T1 and T1[ct][2] != 1:
            # nil with the bit requested and no seccomp(2) call seen: the calling thread (a pinned actor) must carry the bit all the same
            bad.append(dict(step=i, what="NoNewPrivs was requested and the load returned nil, but the calling thread (%d) does not have the bit" % ct,
                            expected="NoNewPrivs: 1", actual="NoNewPrivs: %d" % T1[ct][2]))
        if nnp and valid and not priv and flags in (0, LOG, 4, 6) and not nil:
            bad.append(dict(step=i, what="an unprivileged load of a valid filter with NoNewPrivs requested failed", expected="nil",
                            actual=" ".join(stp["R"][:2]), migrated=stp["M"]))
        if not nnp:
            for t in T1:
                if stp.get("concurrent") and t != ct:
                    continue
                if t in T0 and T0[t][2] != T1[t][2]:
                    if nil and flags & TSYNC and ct in T0 and T0[ct][2] == 1:
                        continue      # the kernel's thread-sync hands a bit the caller already had to the other threads
                    bad.append(dict(step=i, what="NoNewPrivs was not requested but the bit of thread %d changed" % t,
                                    expected="NoNewPrivs: %d" % T0[t][2], actual="NoNewPrivs: %d" % T1[t][2]))
            if not priv and ct is not None and ct in T0 and T0[ct][2] == 0:
                if nil:
                    bad.append(dict(step=i, what="an unprivileged load without NoNewPrivs returned nil", expected="error", actual="nil"))
                for t in T1:
                    if stp.get("concurrent") and t != ct:
                        continue
                    if t in T0 and T1[t][1] != T0[t][1]:
                        bad.append(dict(step=i, what="an unprivileged load without NoNewPrivs installed a filter on thread %d" % t,
                                        expected=list(T0[t]), actual=list(T1[t])))
    return bad


DIRECT = {"C09": direct_C09, "C10": direct_C10, "C11": direct_C11}


# ------------------------------------------------------------------------------------------------ generators
def gen_C09(rng, n):
    hs = []
    forced = [
        # refused thread-sync: another thread carries a divergent filter
        "actor 0;actor 1;load 1 a1 0 0 ok;load 2 a0 0 1 ok;load 3 a0 0 3 ok;load 4 a0 1 0 ok;probe",
        # a thread AHEAD of the caller, then thread-sync from the one that is behind, then from the one ahead
        "actor 0;actor 1;load 1 a0 1 1 ok;load 2 a1 0 0 ok;load 3 a0 0 1 ok;load 4 a1 0 1 ok;actor 2;probe",
        # every kind of refusal in one process
        "actor 0;load 1 a0 0 128 ok;load 2 a0 0 64 ok;load 3 a0 0 0 oversize;load 4 a0 1 0 invalid;load 5 a0 1 1 nodefault;supp a0;load 6 a0 0 0 ok;supp g",
        # missing privilege
        "drop;actor 0;load 1 a0 0 0 ok;load 2 a0 0 1 ok;supp a0;load 3 a0 1 0 ok;load 4 a0 0 0 ok;actor 1;load 5 a1 0 0 ok",
        "actor 0;actor 1;drop;load 1 g 0 0 ok;load 2 a0 0 2 oversize;load 3 a0 1 128 ok;load 4 a1 1 1 ok;exit 0;load 5 a1 0 1 ok",
        # flags with a listener (returns a descriptor in r1) and illegal combinations
        "actor 0;load 1 a0 0 8 ok;load 2 a0 0 9 ok;load 3 a0 0 32 ok;load 4 a0 0 16 ok;load 5 a0 0 4 ok",
    ]
    forced += [
        # valid policies that change no decision: nil still means one more filter on the thread (and the bit, if requested)
        "actor 0;load 1 a0 1 0 nonames;load 2 a0 0 0 allowall;load 3 a0 0 0 ok;probe",
        "actor 0;actor 1;load 1 a0 0 1 allowall;load 2 a1 1 1 nonames;probe",
        "drop;actor 0;load 1 a0 1 0 nonames;load 2 a0 1 0 allowall;load 3 g 0 0 allowall;probe",
        # the same filter loaded again after the kernel refused it the first time
        "actor 0;actor 1;load 1 a1 0 0 ok;load 2 a0 0 1 ok;exit 1;load 2 a0 0 1 ok;probe",
        "actor 0;actor 1;load 1 a1 1 0 ok;load 2 a0 1 3 ok;load 2 a0 1 3 ok;exit 1;load 2 a0 1 3 ok;load 2 a0 1 3 ok;probe",
        "actor 0;load 1 a0 0 128 ok;load 1 a0 0 0 ok;load 1 a0 0 0 ok;probe",
        # probing for support on a thread whose filter answers seccomp(2) with an error
        "actor 0;actor 1;load 1 a0 0 0 denyseccomp;supp a0;supp a1;supp g;load 2 a0 1 0 ok;supp a0;probe",
        "actor 0;load 1 a0 0 0 denyseccomp38;supp a0;load 2 a0 0 1 ok;load 3 a0 1 3 ok;supp a0;probe",
        # prctl(2) answered with an error by an earlier filter: a load that asks for the bit fails, one that does not succeeds
        "actor 0;load 1 a0 0 0 denyprctl;load 2 a0 1 0 ok;load 3 a0 0 0 ok;load 4 a0 1 1 ok;probe",
        # the thread's filter chain filled up to the kernel's limit in steps of decreasing size (the limit counts the kernel's
        # internal instructions, 4 extra per filter: KernelState.internal_len): ENOMEM is an error, and the model places it
        # at the same load as the kernel
        "actor 0;" + ";".join("load %d a0 %d 0 big" % (i, 1 if i == 1 else 0) for i in range(1, 8)) + ";" +
        ";".join("load %d a0 0 0 mid" % i for i in range(8, 17)) + ";" + ";".join("load %d a0 0 0 ok" % i for i in range(17, 30)) + ";probe",
        "actor 0;actor 1;" + ";".join("load %d a0 1 1 midnames" % i for i in range(1, 6)) + ";" + ";".join("load %d a0 0 0 big" % i for i in range(6, 13)) + ";" +
        ";".join("load %d a1 0 1 mid" % i for i in range(13, 20)) + ";" + ";".join("load %d a0 0 %d ok" % (i, i % 4) for i in range(20, 34)) + ";probe",
    ]
    forced += [
        # thread-sync with the "report ESRCH" bit (16: known to the kernel, unnamed in the package) refused because another
        # thread carries a divergent filter: the kernel answers ESRCH instead of a thread id - still a refusal
        "actor 0;actor 1;load 1 a1 0 0 ok;load 2 a0 0 17 ok;load 3 a0 1 19 ok;load 4 a1 0 17 ok;load 5 a1 0 1 ok;probe",
        "drop;actor 0;actor 1;load 1 a1 1 0 ok;load 2 a0 1 17 ok;exit 1;load 2 a0 1 17 ok;probe",
        "drop;actor 0;load 1 a0 0 17 ok;load 2 a0 0 19 ok;load 3 a0 1 17 ok;probe",
        # the very same request again with only the no_new_privs wish changed (same policy, same flags)
        "actor 0;load 1 a0 0 1 ok;load 1 a0 1 1 ok;load 1 a0 1 1 ok;probe",
        "actor 0;actor 1;load 1 a0 0 3 ok;load 1 a1 1 3 ok;load 1 a0 1 3 ok;probe",
    ]
    forced += [
        # two loads from two threads that overlap between their prctl and seccomp steps: each installs ITS program
        "actor 0;actor 1;pload 1 a0 1 0 ok 2 a1 1 0 ok;probe",
        "actor 0;actor 1;load 1 a0 0 0 mid;pload 2 a0 0 0 mid 3 a1 1 0 mid;pload 4 a0 0 2 ok 5 a1 0 0 ok;probe",
        "actor 0;actor 1;pload 1 a0 1 0 big 2 a1 1 0 ok;probe",
        "actor 0;actor 1;pload 1 a0 0 0 ok 2 a1 1 2 mid;load 3 a0 0 0 ok;probe",
    ]
    if n > 100:
        forced.append("actor 0;actor 1;load 1 a0 1 0 big;load 2 a0 0 0 big;load 3 a0 0 0 big;load 4 a0 0 0 big;load 5 a0 0 0 big;load 6 a0 0 0 big;load 7 a0 0 0 big;load 8 a0 0 0 big;load 9 a0 0 0 big;load 10 a0 0 1 big;load 11 a0 0 3 big;load 12 a0 0 0 ok;probe")
    else:
        forced = [h for h in forced if "midnames" not in h]     # the second chain-filling history: thorough tier only
    for t in forced:
        hs.append(t)
    while len(hs) < n:
        ops = []
        nact = rng.randint(1, 3)
        for k in range(nact):
            ops.append("actor %d" % k)
        alive = list(range(nact))
        nxt = nact
        idx = 0
        dropped = False
        direct_only = rng.random() < 0.2      # histories judged by the direct rules only (see SILENT)
        for _ in range(rng.randint(3, 8)):
            r = rng.random()
            if r < 0.62 and idx < 8:
                idx += 1
                who = ("a%d" % rng.choice(alive)) if alive and rng.random() < 0.75 else "g"
                flags = rng.choice([0, 0, 1, 1, 1, 2, 3, 3, 128, 0x41, 16, 4])
                pol = rng.choice(["ok"] * 8 + ["invalid", "nodefault", "oversize"] + (["nonames", "allowall", "nonames"] if direct_only else []))
                ops.append("load %d %s %d %d %s" % (idx, who, rng.randint(0, 1), flags, pol))
                if direct_only and rng.random() < 0.3:
                    ops.append(ops[-1])          # the same filter once more
            elif r < 0.72:
                ops.append("supp %s" % (("a%d" % rng.choice(alive)) if alive and rng.random() < 0.5 else "g"))
            elif r < 0.80 and len(alive) > 1:
                k = rng.choice(alive)
                alive.remove(k)
                ops.append("exit %d" % k)
            elif r < 0.90:
                ops.append("actor %d" % nxt)
                alive.append(nxt)
                nxt += 1
            elif not dropped and rng.random() < 0.5:
                dropped = True
                ops.append("drop")
        ops.append("probe")
        hs.append(";".join(ops))
    return hs


def forced_C10():
    return [
        # a load the kernel refuses with EINVAL (program too long, unknown flag bit), then loads whose flag words must reach it unchanged
        "actor 0;bg 1 sleep;load 1 a0 0 2 oversize;load 2 a0 0 3 ok;wake;load 3 a0 1 2 ok;probe",
        "actor 0;bg 1 sleep;bg 2 pipe;load 1 a0 0 3 oversize;load 2 a0 0 130 ok;load 3 g 0 3 ok;wake;load 4 a0 0 2 ok;probe",
        # thread-sync without privilege and without no_new_privs: refused (EACCES) - never "nil for the calling thread only"
        "drop;actor 0;bg 1 sleep;bg 2 pipe;load 1 a0 0 1 ok;load 2 a0 0 3 ok;wake;load 3 a0 1 1 ok;probe",
        "actor 0;bg 1 sleep;drop;load 1 g 0 1 ok;wake;probe",
        # seccomp(2) itself answered with ENOSYS / EPERM by an earlier filter of the thread: a thread-sync load must fail, not fall back
        "actor 0;bg 1 sleep;bg 2 pipe;load 1 a0 0 0 denyseccomp38;load 2 a0 1 1 ok;load 3 a0 1 3 ok;wake;probe",
        "actor 0;bg 1 sleep;load 1 a0 1 0 denyseccomp;load 2 a0 1 1 ok;wake;probe",
        # the same filter again on the same thread, now with thread-sync: it must reach every thread
        "actor 0;bg 1 sleep;bg 2 pipe;load 1 a0 1 0 ok;load 1 a0 1 1 ok;wake;actor 3;probe",
        "actor 0;bg 1 sleep;load 1 a0 0 2 ok;load 1 a0 0 3 ok;load 1 a0 0 1 ok;wake;probe",
        # two overlapping loads with different flag words: each word reaches the kernel as requested
        "actor 0;actor 1;bg 2 sleep;pload 1 a0 1 1 ok 2 a1 1 0 ok;wake;probe",
        "actor 0;actor 1;bg 2 sleep;bg 3 pipe;pload 1 a0 0 0 ok 2 a1 0 3 mid;wake;actor 4;probe",
        # a process with a long list of supplementary groups (a long /proc/self/status)
        "groups 120;actor 0;bg 1 sleep;bg 2 pipe;load 1 a0 1 1 ok;wake;actor 3;probe",
        "groups 300;actor 0;bg 1 sleep;load 1 g 0 3 ok;wake;probe",
        # thread-sync of filters that change no decision
        "actor 0;bg 1 sleep;bg 2 spin;load 1 a0 1 1 nonames;load 2 a0 0 1 allowall;wake;actor 3;probe",
    ]


def gen_C10(rng, sizes, per_size):
    hs = []
    kinds = ["spin", "sleep", "pipe", "spawn"]
    for n in sizes:
        for rep in range(per_size):
            for flags in (0, 1, 2, 3):
                ops = ["actor 0"]
                nspin = 0
                for k in range(1, n + 1):
                    kind = rng.choice(kinds)
                    if kind == "spin":
                        nspin += 1
                        if nspin > 3:
                            kind = rng.choice(["sleep", "pipe"])
                    if kind == "spawn" and (not flags & TSYNC or k > 3):
                        kind = "sleep"      # threads being created during a load: only with thread-sync (see loaderchecks doc)
                    ops.append("bg %d %s" % (k, kind))
                pre = rng.random()
                idx = 0
                if pre < 0.25:
                    idx += 1
                    ops.insert(1, "load %d a0 %d %d ok" % (idx, rng.randint(0, 1), rng.choice([0, 2])))   # inherited by all
                if rng.random() < 0.6:
                    ops.append("sleep %d" % rng.randint(0, 6))
                idx += 1
                who = "a0" if rng.random() < 0.6 else "g"
                ops.append("load %d %s %d %d ok" % (idx, who, rng.randint(0, 1), flags))
                ops.append("wake")
                ops.append("actor %d" % (n + 1))       # a thread created afterwards
                if rng.random() < 0.5:
                    idx += 1
                    ops.append("load %d a%d 0 %d ok" % (idx, n + 1, rng.choice([0, 1])))
                ops.append("probe")
                hs.append(";".join(ops))
    return hs


def gen_C11(rng, thorough):
    hs = [
        # filters that change no decision: the bit is still set iff requested, an unprivileged load without it still fails
        "actor 0;load 1 a0 1 0 allowall;load 2 a0 1 0 nonames;probe",
        "drop;actor 0;load 1 a0 0 0 allowall;load 2 a0 0 0 nonames;load 3 a0 1 0 allowall;load 4 g 1 0 nonames;probe",
        "actor 0;load 1 a0 0 0 nonames;load 2 a0 1 0 ok;probe",
        # prctl(2) answered with an error by an earlier filter (as root): the bit cannot be set, so the load must not succeed without it
        "actor 0;load 1 a0 0 0 denyprctl;load 2 a0 1 0 ok;load 3 a0 1 1 ok;load 4 g 1 0 ok;probe",
        # flag bits the kernel knows and the package has no name for (SPEC_ALLOW = 4): the bit is set all the same
        "actor 0;load 1 a0 1 4 ok;load 2 a0 1 6 ok;probe",
        "drop;actor 0;load 1 a0 1 4 ok;load 2 g 1 5 ok;load 3 a0 1 7 ok;probe",
        # overlapping loads, one asking for the bit and one not: the bit lands on the thread that asked
        "actor 0;actor 1;pload 1 a0 1 0 ok 2 a1 0 0 ok;probe",
        "drop;actor 0;actor 1;pload 1 a0 1 0 ok 2 a1 0 0 ok;probe",
        # a second load with the bit requested on a thread that already carries a filter loaded WITHOUT it (as root)
        "actor 0;load 1 a0 0 0 ok;load 2 a0 1 0 ok;probe",
        "actor 0;actor 1;load 1 a0 0 1 ok;load 2 a1 1 0 ok;load 3 a0 1 2 ok;probe",
        "actor 0;load 1 a0 0 0 ok;drop;load 2 a0 1 0 ok;load 3 g 1 0 ok;probe",
        # the very same request again (same policy, same flags) with only the no_new_privs wish changed
        "actor 0;load 1 a0 0 1 ok;load 1 a0 1 1 ok;probe",
        "actor 0;load 1 a0 0 0 ok;load 1 a0 1 0 ok;load 1 a0 1 0 ok;probe",
        "actor 0;actor 1;load 1 a0 0 3 ok;load 1 a1 1 3 ok;probe",
        "actor 0;load 1 g 0 1 mid;load 1 g 1 1 mid;probe",
        "actor 0;load 1 a0 0 17 ok;load 1 a0 1 17 ok;probe",
        # thread sync with the kernel's "report ESRCH" bit (16) from an unprivileged process: without the bit requested the
        # kernel refuses (EACCES) whatever the flag word says; with it the load succeeds
        "drop;actor 0;load 1 a0 0 17 ok;load 2 a0 0 19 ok;load 3 a0 0 16 ok;load 4 a0 1 17 ok;probe",
        "drop;actor 0;actor 1;load 1 a1 0 17 ok;load 2 g 0 17 ok;load 3 a0 1 19 ok;probe",
    ]
    # a large policy (tens of milliseconds between entering LoadFilter and the seccomp call) loaded from an unpinned
    # goroutine under scheduling pressure: bit and filter must still land on the same thread
    for rep in range(6 if thorough else 3):
        hs.append("actor 0;load 1 gp 1 0 big;probe")
        hs.append("drop;actor 0;load 1 gp 1 %d big;probe" % (2 if rep % 2 else 0))
    for priv in (True, False):
        for nnp in (0, 1):
            for flags in (0, 1, 2, 3):
                for who in ("a0", "g", "gm"):
                    ops = []
                    if not priv:
                        ops.append("drop")
                    ops.append("actor 0")
                    if rng.random() < 0.4:
                        ops.append("actor 1")
                    ops.append("load 1 %s %d %d ok" % (who, nnp, flags))
                    r = rng.random()
                    if r < 0.5:
                        ops.append("load 2 %s %d %d ok" % (rng.choice(["a0", "g"]), rng.randint(0, 1), rng.choice([0, 1, 2, 3])))
                    elif r < 0.7:
                        ops.append("load 2 a0 1 0 invalid")
                    ops.append("probe")
                    hs.append(";".join(ops))
    extra = 40 if thorough else 6
    for _ in range(extra):
        ops = ["actor 0", "actor 1"]
        if rng.random() < 0.7:
            ops.insert(rng.randint(0, 2), "drop")
        for idx in range(1, rng.randint(2, 5)):
            ops.append("load %d %s %d %d %s" % (idx, rng.choice(["a0", "a1", "g", "gm"]), rng.randint(0, 1), rng.choice([0, 1, 2, 3]),
                                                rng.choice(["ok"] * 5 + ["invalid"])))
        ops.append("probe")
        hs.append(";".join(ops))
    return hs


# ------------------------------------------------------------------------------------------------ the checks
def nontrivial(prop, h):
    """rule for distinct_nontrivial (documented in the evidence)"""
    kinds = set()
    for i, stp, pre in load_steps(h):
        op = stp["op"]
        if op[0] != "load":
            continue
        nil = stp["R"][0] == "nil"
        flags = int(op[4])
        if prop == "C09" and not nil:
            # the kind of refusal, from the history itself and the errno class (never from message text)
            kinds.add("invalid-policy" if op[5] in ("invalid", "nodefault") else
                      ("refused-thread-sync" if stp["R"][1] == "OTHER" and flags & TSYNC else stp["R"][1]))
        if prop == "C09" and nil and flags & TSYNC and len(stp["T"]) > 1:
            kinds.add("tsync-ok")
        if prop == "C10" and len(h["K"]) >= 2:
            kinds.add("tsync-ok" if (nil and flags & TSYNC) else "other")
        if prop == "C11":
            kinds.add("unpriv" if not privileged_at(h, i) else ("migr" if op[2] == "gm" else ""))
    kinds.discard("")
    return kinds


def run_check(ctx, prop, prop_file, theorems, hist_texts, replay, rule, jobs=8):
    gen, th, ok = setup(ctx, prop_file, theorems)
    if not ok:
        return
    if replay and replay.get("history"):
        hist_texts = [replay["history"]]
    hists = [("h%d" % i, t) for i, t in enumerate(hist_texts)]
    t0 = time.time()
    obs = run_histories(ctx, hists, jobs=jobs, force_hostile=None if not (replay and replay.get("history")) else str(replay.get("surroundings", "")).startswith("hostile"))
    ctx.log("%d histories executed by the implementation in %.1fs" % (len(obs), time.time() - t0))
    nbad = 0
    reported = 0
    bad_hist = set()
    nops = 0
    unusable = []
    for hid, h in obs.items():
        nops += len([k for k in h["steps"] if k >= 0])
        if not h["ended"] or h["X"] or h["exit"] != "0":
            started = [h["steps"][k] for k in sorted(h["steps"]) if k >= 0 and h["steps"][k]["op"]]
            last = started[-1] if started else None
            if prop == "C09" and last is not None and last["op"][0] == "supp" and last["R"] is None and not h["X"]:
                # the process did not survive the probe (e.g. it entered strict mode): probing changed process state
                nbad += 1
                bad_hist.add(hid)
                if reported < 3:
                    p = ctx.violation("counterexample", dict(history=h["text"], surroundings=h["surroundings"], what="the process did not survive a call of Supported(): probing for support changed process state",
                                                             operation=" ".join(last["op"]), expected="Supported() returns and no task changes", actual="child process ended with %s" % h["exit"]), True)
                    rewrite_with_replay_cmd(ctx, p)
                    reported += 1
                continue
            unusable.append(dict(history=h["text"], exit=h["exit"], messages=h["X"][:3]))
            continue
        for b in DIRECT[prop](h):
            nbad += 1
            bad_hist.add(hid)
            if reported < 3:
                p = ctx.violation("counterexample", dict(history=h["text"], surroundings=h["surroundings"], what=b["what"], step=b["step"],
                                                         operation=" ".join(h["steps"][b["step"]]["op"]), expected=b.get("expected"), actual=b.get("actual"),
                                                         result=" ".join(h["steps"][b["step"]]["R"][:2]), detail={k: v for k, v in b.items() if k not in ("what", "step", "expected", "actual")}), True)
                rewrite_with_replay_cmd(ctx, p)
                reported += 1
    if unusable:
        # a child that died or could not run its history: the history is not evidence; report (never a silent pass)
        p = ctx.violation("correspondence", dict(stream="load histories (%s)" % prop, what="child processes did not complete their history",
                                                 cases=unusable[:5]), False)
        rewrite_with_replay_cmd(ctx, p)
    # model replay
    ndiff = 0
    nsteps = 0
    t0 = time.time()
    if gen:
        usable = {hid: h for hid, h in obs.items() if h["ended"] and not h["X"]}
        diffs, log, nsteps = replay_in_coq(ctx, gen, usable)
        if diffs is None:
            ctx.broken = (getattr(ctx, "broken", None) or "") + "\nthe model could not be evaluated on the observed histories: " + log[-1500:]
        else:
            rep = 0
            for hid, ds in diffs.items():
                if ds is None:
                    ctx.broken = (getattr(ctx, "broken", None) or "") + "\nno replay result for history %s" % hid
                    continue
                mine = [d for d in ds if d[2] in DIFF_KINDS[prop]]
                if mine:
                    ndiff += 1
                    if rep < 3 and hid not in bad_hist:
                        d = mine[0]
                        stp = obs[hid]["steps"].get(d[0])
                        p = ctx.violation("correspondence", dict(
                            stream="load histories (%s): model replay (LoaderReplay.replay over the regenerated skeletons) vs the implementation on the running kernel" % prop,
                            history=obs[hid]["text"], surroundings=obs[hid]["surroundings"], step=d[0], operation=" ".join(stp["op"]) if stp and stp["op"] else None,
                            thread=d[1], observable=KIND_NAMES.get(d[2], d[2]), model=d[3], implementation=d[4],
                            all_differences=[dict(step=x[0], thread=x[1], observable=KIND_NAMES.get(x[2], x[2]), model=x[3], implementation=x[4]) for x in mine[:8]],
                            what="the model of the loader and the implementation differ on this history; the property text itself was not seen to fail on it"), False)
                        rewrite_with_replay_cmd(ctx, p)
                        rep += 1
        ctx.log("model replay of %d steps in Coq in %.1fs" % (nsteps, time.time() - t0))
    if th:
        th.join()
    # coverage
    distinct = {}
    dist = {}
    results = {}
    threads_max = 0
    for hid, h in obs.items():
        ks = nontrivial(prop, h)
        if ks:
            distinct[h["text"]] = ks
        for i, stp, pre in load_steps(h):
            if stp["op"][0] == "load":
                key = "%s flags=%s nnp=%s %s" % (stp["op"][5], stp["op"][4], stp["op"][3], "pinned" if stp["op"][2].startswith("a") else stp["op"][2])
                dist[key] = dist.get(key, 0) + 1
                rk = " ".join(stp["R"][:2])
                results[rk] = results.get(rk, 0) + 1
            threads_max = max(threads_max, len(stp["T"]))
    sample = []
    for hid, h in list(obs.items())[:2]:
        sample.append(dict(history=h["text"], steps=[dict(op=" ".join(s["op"]) if s["op"] else None, result=" ".join(s["R"][:2]) if s["R"] else None,
                                                      seccomp_calls=[list(c) for c in s["C"]],
                                                      tasks={str(t): list(v) for t, v in list(s["T"].items())[:6]},
                                                      active={str(t): v for t, v in list(s["P"].items())[:6]})
                                                 for k, s in sorted(h["steps"].items()) if k >= 0][:6]))
    ctx.coverage["checker_cmd"] = ("coqc 8.16.1 (full .vo) on coq/theories + regenerated gen/ (GenSkeletons.v, GenConsts.v) + coq/properties/LoaderInst.v "
                                   "(per-run proof by symbolic execution that the regenerated LoadFilter skeleton satisfies load_spec) + coq/properties/%s.v; "
                                   "Print Assumptions per theorem" % prop)
    ctx.coverage.update(dict(
        evaluations=nops, histories=len(obs), distinct_nontrivial=len(distinct), rule=rule,
        traces_validated_against_impl=nsteps, correspondence_differences=ndiff, counterexamples=nbad,
        input_distribution=dict(loads=dist, results=results, max_tasks_in_a_process=threads_max,
                                nontrivial_kinds=sorted(set(k for v in distinct.values() for k in v))),
        samples=sample,
    ))
    ctx.assumptions += [
        "kernel model (KernelState.v): order of checks and errno values of seccomp(2)/prctl(2) validated on this kernel; a thread-sync is one atomic step with respect to thread creation and exit; a new thread inherits filters and no_new_privs from the thread that calls clone",
        "the loader's own system calls are judged by the filters already installed (KernelState.gate): x86_64 numbers (seccomp 317, prctl 157), little-endian seccomp_data, instruction pointer and pointer arguments read as 0; a call answered with a fatal action ends the model's history",
        "the Go scheduler is an oracle naming the OS thread of an unpinned goroutine at every statement boundary; schedules of the real runs are sampled, not enumerated",
    ]
    finish_with_proof_status(ctx, nbad, "%s theorems over the regenerated loader skeletons" % prop)


def check_C09(ctx, replay=None):
    rng = random.Random(ctx.seed * 1000003 + 9)
    n = 60 if ctx.tier == "quick" else 260
    run_check(ctx, "C09", "C09.v", C09_THEOREMS, gen_C09(rng, n), replay,
              "load histories from the seeded generator plus some twenty-five forced ones (refused thread-sync by a divergent / an ahead thread, unknown flag bits 0x80 / 0x40 / illegal combinations, a 5000-instruction program, invalid policies, dropped privilege, listener flag; valid policies that change no decision - no names, all allow -; the same filter loaded again after a refusal; Supported() on a thread whose filter answers seccomp(2) with EPERM / ENOSYS; prctl(2) answered with EPERM; two loads from two threads made to overlap between their prctl and seccomp steps - equal and different program lengths -; the filter chain filled to the kernel's ENOMEM limit with filters of about 4700, 600 and 20 internal instructions, so that the model's limit arithmetic (KernelState.internal_len) is compared with the kernel's to within twenty instructions), each executed by the real LoadFilter/Supported in a fresh child process (loads from locked OS threads and from ordinary goroutines) and replayed on the model inside Coq; every step compares result class, per-task Seccomp/Seccomp_filters and the set of filters answering the probe syscall; non-trivial = distinct history containing a kernel refusal (EINVAL/EACCES/thread-sync) or a successful thread-sync with several tasks")


def check_C10(ctx, replay=None):
    rng = random.Random(ctx.seed * 1000003 + 10)
    if ctx.tier == "quick":
        hs = forced_C10() + gen_C10(rng, [1, 2, 4], 1) + gen_C10(rng, [16], 1)[:4] + gen_C10(rng, [64], 1)[1:2]
    else:
        hs = forced_C10() + gen_C10(rng, [1, 2, 3, 4, 8], 4) + gen_C10(rng, [16, 32], 2) + gen_C10(rng, [64], 2)
    run_check(ctx, "C10", "C10.v", C10_THEOREMS, hs, replay,
              "nine forced histories (a load refused with EINVAL followed by loads whose flag words must arrive unchanged; thread-sync without privilege and without no_new_privs; seccomp(2) itself answered with ENOSYS / EPERM by an earlier filter; the same filter loaded again with thread-sync; thread-sync of filters that change no decision; two overlapping loads with different flag words; a process with 120 / 300 supplementary groups) and one process per history with N in {1,2,4,16,64} (thorough: more) extra OS threads that spin, sleep in nanosleep, block in read(2) on a pipe or keep creating threads while the load runs, flags in {0,tsync,log,tsync|log}, loads from a locked thread or an ordinary goroutine, optional earlier filter, random delay; after an atomic 'load returned' flag every thread issues the probe system calls, a thread created afterwards probes too; hook H2 records op/flags/len; compared with the model replay and checked directly; non-trivial = distinct history with at least two controlled threads",
              jobs=6)


def check_C11(ctx, replay=None):
    rng = random.Random(ctx.seed * 1000003 + 11)
    run_check(ctx, "C11", "C11.v", C11_THEOREMS, gen_C11(rng, ctx.tier != "quick"), replay,
              "the full matrix {root, uid nobody} x {NoNewPrivs requested or not} x flags {0,1,2,3} x {locked OS thread, ordinary goroutine, ordinary goroutine with a forced migration attempt at the schedule point between prctl and seccomp (GOMAXPROCS(1), busy second goroutine, 30 ms sleeps)} plus random multi-load histories, plus forced ones: filters that change no decision, prctl(2) answered with EPERM by an earlier filter, a second load with the bit requested on a thread filtered without it, flag words with the kernel's SPEC_ALLOW bit, overlapping loads of which only one asks for the bit, and a 4000-instruction policy loaded from an unpinned goroutine under scheduling pressure (GC loops, eight timer goroutines); per step: result, per-task NoNewPrivs/Seccomp, thread of the seccomp(2) call; non-trivial = distinct history run unprivileged or with a migration attempt")


CHECKS = {"C09": check_C09, "C10": check_C10, "C11": check_C11}

if __name__ == "__main__":
    # tiny runner used while this module was developed under another name
    import sys
    import common
    prop = sys.argv[1]
    ctx = common.Ctx(prop, os.environ.get("VERIF_TIER", "quick"), int(os.environ.get("VERIF_SEED", "1")))
    rp = None
    if len(sys.argv) > 2:
        import json
        rp = json.load(open(sys.argv[2]))
    CHECKS[prop](ctx, replay=rp)
    if not rp:
        ctx.write_evidence()
    sys.exit(ctx.finish())
