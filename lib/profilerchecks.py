"""Checks for the profiler command: C17 (cache of disassemblies) and C18 (profile = found - blacklisted + allowed,
loads back). The real seccomp-profiler binary is built from the repository under test and run with a fake
`go tool objdump` first on PATH; the model of coq/theories/Profiler.v is evaluated by its extraction
(coq/extract/profdriver); the proofs are in coq/properties/C17.v and C18.v."""
import concurrent.futures
import glob
import hashlib
import json
import os
import random
import re
import resource
import shutil
import signal
import subprocess
import threading
import time

from common import REPO, VERIF, GOENV, COQ
from corechecks import proof_step, finish_with_proof_status, rewrite_with_replay_cmd
from gencases import parse_header, hexs

PROFDRIVER = os.path.join(COQ, "extract", "profdriver")
BUFSIZE = 4096

C17_THEOREMS = ["C17_cache_ok_initially", "C17_run_prefix_preserves_inv", "C17_crash_points_are_prefixes",
                "C17_history_preserves_inv", "C17_cold_run", "C17_second_run_sound", "C17_second_run_profile",
                "C17_old_protocol_refuted", "C17_old_protocol_refuted_by_crash", "C17_profiler_inputs_are_the_documented_flags"]
C18_THEOREMS = ["C18_profile_sorted", "C18_profile_nodup", "C18_profile_members", "C18_profile_members_disjoint",
                "C18_profile_allow_wins", "C18_profile_in_table", "C18_profile_perm_invariant", "C18_profile_decides", "C18_flag_occurrences_accumulate", "C18_nameless_occurrence_is_neutral",
                "C18_listed_spec", "C18_generated_tables_unambiguous", "C18_profile_on_generated_tables",
                "C18_generated_actions", "C18_profile_decides_generated"]

FAKE_GO = r"""#!/bin/sh
# stands in for "go tool objdump <binary>": emits (a prefix of) the listing named by FAKE_LISTING
[ "$1" = tool ] && [ "$2" = objdump ] && [ -n "$3" ] || exit 2
if [ "$3" = "-s" ] || [ "$3" = "--s" ]; then
  # like the real tool: only the functions whose symbol matches the expression
  tmp="${FAKE_MARK}.filtered"
  awk -v re="$4" '/^TEXT /{keep = ($2 ~ re)} keep' "$FAKE_LISTING" > "$tmp"
  FAKE_LISTING="$tmp"
fi
if [ -n "$FAKE_K" ]; then head -c "$FAKE_K" "$FAKE_LISTING"; else cat "$FAKE_LISTING"; fi
case "$FAKE_MODE" in
fail) exit "${FAKE_RC:-3}" ;;
sig*) kill -s "${FAKE_MODE#sig}" $$ ; sleep 5 ;;
hang) : > "$FAKE_MARK"; exec sleep 60 ;;
esac
exit 0
"""

TARGET_MAIN = """package main

const variant = "%s"

func main() { println("target", variant) }
"""

GOARCH_OF = {"X86_64": "amd64", "I386": "386", "ARM": "arm"}
RAW_INSN = {"X86_64": "SYSCALL", "I386": "INT $0x80"}


def xhex(b):
    if isinstance(b, str):
        b = b.encode()
    return "x" + b.hex()


def describe(b):
    return "%d:%s" % (len(b), hashlib.md5(b).hexdigest())


# ------------------------------------------------------------------------------------------------ environment
class ProfEnv:
    """The profiler binary, the target binaries, the fake tool, and the bookkeeping of cache files created."""

    def __init__(self, ctx):
        self.ctx = ctx
        self.root = os.path.join(ctx.scratch, "prof")
        os.makedirs(self.root, exist_ok=True)
        self.created = set()
        self.cache_dir = None
        self.ncase = 0
        self.executions = 0
        self.lock = threading.Lock()

    def build(self):
        """Returns an error text or None."""
        self.profiler = os.path.join(self.root, "seccomp-profiler")
        r = subprocess.run(["go", "build", "-o", self.profiler, "./cmd/seccomp-profiler"], cwd=REPO, env=GOENV,
                           capture_output=True, text=True, timeout=600)
        if r.returncode != 0:
            return "the profiler does not build: " + (r.stdout + r.stderr)[-2000:]
        # the same sources without cgo: os/user then takes the home directory of an unknown uid from $HOME, which lets a
        # scenario give the profiler a cache directory of its own (c17_full_cache_fs)
        self.profiler_nocgo = os.path.join(self.root, "seccomp-profiler-nocgo")
        r = subprocess.run(["go", "build", "-o", self.profiler_nocgo, "./cmd/seccomp-profiler"], cwd=REPO, env=dict(GOENV, CGO_ENABLED="0"),
                           capture_output=True, text=True, timeout=600)
        if r.returncode != 0:
            return "the profiler does not build with CGO_ENABLED=0: " + (r.stdout + r.stderr)[-2000:]
        self.targets = {}
        for variant in ("v1", "v2"):
            d = os.path.join(self.root, "target-" + variant)
            os.makedirs(d, exist_ok=True)
            with open(os.path.join(d, "main.go"), "w") as f:
                f.write(TARGET_MAIN % variant)
            with open(os.path.join(d, "go.mod"), "w") as f:
                f.write("module target\n\ngo 1.18\n")
            for an, goarch in GOARCH_OF.items():
                out = os.path.join(self.root, "t-%s-%s" % (goarch, variant))
                env = dict(GOENV, GOARCH=goarch, CGO_ENABLED="0", GOOS="linux")
                r = subprocess.run(["go", "build", "-o", out, "."], cwd=d, env=env, capture_output=True, text=True, timeout=600)
                if r.returncode != 0:
                    return "target for %s does not build: %s" % (goarch, (r.stdout + r.stderr)[-1500:])
                with open(out, "rb") as f:
                    self.targets[(an, variant)] = (out, hashlib.sha256(f.read()).hexdigest())
        # the same two builds linked dynamically (cgo), host architecture only: what `go build` gives for programs that use
        # cgo; skipped if no C compiler is there
        for variant in ("v1", "v2"):
            d = os.path.join(self.root, "target-" + variant + "d")
            os.makedirs(d, exist_ok=True)
            with open(os.path.join(d, "main.go"), "w") as f:
                f.write(TARGET_MAIN % (variant + "-dynamic"))
            with open(os.path.join(d, "cgo.go"), "w") as f:
                f.write("package main\n\n// #include <unistd.h>\nimport \"C\"\n\nfunc init() { _ = C.getpid() }\n")
            with open(os.path.join(d, "go.mod"), "w") as f:
                f.write("module target\n\ngo 1.18\n")
            out = os.path.join(self.root, "t-dyn-%s" % variant)
            try:
                r = subprocess.run(["go", "build", "-o", out, "."], cwd=d, env=dict(GOENV, CGO_ENABLED="1", GOOS="linux"), capture_output=True, text=True, timeout=600)
            except (OSError, subprocess.TimeoutExpired):
                break
            if r.returncode != 0:
                break
            with open(out, "rb") as f:
                self.targets[("X86_64", variant + "d")] = (out, hashlib.sha256(f.read()).hexdigest())
        self.fake = os.path.join(self.root, "fake")
        os.makedirs(self.fake, exist_ok=True)
        with open(os.path.join(self.fake, "go"), "w") as f:
            f.write(FAKE_GO)
        os.chmod(os.path.join(self.fake, "go"), 0o755)
        self.nopath = os.path.join(self.root, "nopath")
        os.makedirs(self.nopath, exist_ok=True)
        # a PATH without `go` that is not empty: other disassemblers and near-namesakes of the tool, each of which would
        # happily print a (foreign) listing of 40 lines and exit 0 - none of them is the tool the profiler is documented
        # to run, so a run without `go` fails and caches nothing whatever else can be found
        self.neighbours = os.path.join(self.root, "neighbours")
        os.makedirs(self.neighbours, exist_ok=True)
        for nm in ("objdump", "gobjdump", "llvm-objdump", "go-objdump", "go.bak", "golang", "go1.23", "gotool"):
            with open(os.path.join(self.neighbours, nm), "w") as f:
                f.write("#!/bin/sh\necho; echo \"$1:     file format elf64-x86-64\"; echo; echo 'Disassembly of section .text:'; echo\n"
                        "echo '0000000000401000 <main.main>:'\ni=0; while [ $i -lt 40 ]; do echo \"  40100$i:\tmov    $0x$i,%eax\"; echo \"  40101$i:\tsyscall\"; i=$((i+1)); done\nexit 0\n")
            os.chmod(os.path.join(self.neighbours, nm), 0o755)
        # a `go` that is found on PATH (executable bit set) but cannot be started
        self.unstartable = {}
        for how, content in (("badinterp", b"#!/nonexistent/interpreter\nexit 0\n"), ("noformat", b"\x00\x01not an executable\n"),
                             ("empty", b"")):
            d = os.path.join(self.root, "unstartable-" + how)
            os.makedirs(d, exist_ok=True)
            with open(os.path.join(d, "go"), "wb") as f:
                f.write(content)
            os.chmod(os.path.join(d, "go"), 0o755)
            self.unstartable[how] = d
        return None

    def new_case_dir(self):
        with self.lock:
            self.ncase += 1
            n = self.ncase
        d = os.path.join(self.root, "cases", "c%d" % n)
        os.makedirs(d, exist_ok=True)
        return d

    def place(self, casedir, an, variant, base="target"):
        """(Re)place the binary of the case: a hard link to the target of that architecture and variant."""
        p = os.path.join(casedir, base)
        if os.path.lexists(p):
            os.remove(p)
        os.link(self.targets[(an, variant)][0], p)
        return p, self.targets[(an, variant)][1]

    def final_name(self, binpath):
        """The cache file name cachedDumpFile computes; the directory is learnt from the profiler's own log."""
        h = hashlib.sha256(os.path.abspath(binpath).encode()).hexdigest()[:10]
        return os.path.join(self.cache_dir, os.path.basename(binpath) + "-" + h)

    def learn_cache_dir(self):
        d = self.new_case_dir()
        b, _ = self.place(d, "X86_64", "v1")
        lst = os.path.join(d, "listing")
        with open(lst, "w") as f:
            f.write("TEXT main.main(SB) /x.go\n")
        r = self.run(b, ["-format", "config"], lst)
        m = re.search(r"Objdump File: (\S+)", r["stderr"])
        if not m:
            return "cannot learn the cache directory: " + r["stderr"][-500:]
        self.cache_dir = os.path.dirname(m.group(1))
        self.created.add(m.group(1))
        if m.group(1) != self.final_name(b):
            return "cache file name %s is not the expected %s" % (m.group(1), self.final_name(b))
        self.cleanup_case(b)
        return None

    def snapshot(self, binpath):
        """Files of this case in the cache directory: (kind, content) with kind 'F' or 'T'."""
        fin = self.final_name(binpath)
        out = []
        for p in sorted(glob.glob(glob.escape(fin) + "*")):
            self.created.add(p)
            try:
                with open(p, "rb") as f:
                    c = f.read()
            except FileNotFoundError:
                continue
            if p == fin:
                out.append(("F", c))
            elif p.startswith(fin + ".tmp-"):
                out.append(("T", c))
        return out

    def seed_file(self, binpath, kind, content, n=0):
        fin = self.final_name(binpath)
        p = fin if kind == "F" else "%s.tmp-%d" % (fin, 900000000 + n)
        self.created.add(p)
        with open(p, "wb") as f:
            f.write(content)

    def cleanup_case(self, binpath):
        fin = self.final_name(binpath)
        for p in glob.glob(glob.escape(fin) + "*"):
            if p == fin or p.startswith(fin + ".tmp-"):
                try:
                    os.remove(p)
                except OSError:
                    pass
                self.created.discard(p)

    def cleanup_all(self):
        for p in list(self.created):
            try:
                os.remove(p)
            except OSError:
                pass
        self.created.clear()

    def run(self, binpath, args, listing, mode="ok", k=None, missing=False, fsize=None, kill=False, expect_size=None, unstartable=None, tmpdir=None, rc=None):
        """One execution of the real profiler. mode: ok | fail (tool exits 3 after k bytes) ; kill: the tool emits k bytes
        and hangs, the profiler is killed with SIGKILL once the copy goroutine has consumed them."""
        with self.lock:
            self.executions += 1
        env = dict(os.environ)
        env["PATH"] = (self.neighbours if self.executions % 2 else self.nopath) if missing else self.fake + ":/usr/bin:/bin"
        if unstartable:
            env["PATH"] = self.unstartable[unstartable] + ":" + self.nopath
        if tmpdir:
            env["TMPDIR"] = tmpdir
        env["FAKE_LISTING"] = listing
        env["FAKE_MODE"] = "hang" if kill else mode
        env["FAKE_K"] = "" if k is None else str(k)
        if rc is not None:
            env["FAKE_RC"] = str(rc)
        mark = os.path.join(os.path.dirname(binpath), "mark")
        env["FAKE_MARK"] = mark
        if os.path.exists(mark):
            os.remove(mark)
        pre = None
        if fsize is not None:
            def pre():
                resource.setrlimit(resource.RLIMIT_FSIZE, (fsize, fsize))
        cmd = [self.profiler] + args + [binpath]
        if not kill:
            r = subprocess.run(cmd, env=env, capture_output=True, preexec_fn=pre, timeout=120)
            return dict(rc=r.returncode, stdout=r.stdout.decode("utf-8", "replace"), stderr=r.stderr.decode("utf-8", "replace"), killed=False)
        p = subprocess.Popen(cmd, env=env, stdout=subprocess.PIPE, stderr=subprocess.PIPE, start_new_session=True)
        t0 = time.time()
        while not os.path.exists(mark) and time.time() - t0 < 20 and p.poll() is None:
            time.sleep(0.002)
        # let the copy goroutine drain the pipe: wait until the temporary file has the size expected (or 1 s)
        fin = self.final_name(binpath)
        t1 = time.time()
        while time.time() - t1 < 5.0:
            sizes = [os.path.getsize(q) for q in glob.glob(glob.escape(fin) + ".tmp-*")]
            if expect_size is not None and sizes and max(sizes) >= expect_size:
                break
            time.sleep(0.003)
        if expect_size == 0:
            time.sleep(0.02)
        early = p.poll()
        try:
            os.killpg(p.pid, signal.SIGKILL)
        except ProcessLookupError:
            pass
        out, err = p.communicate()
        return dict(rc=p.returncode, stdout=out.decode("utf-8", "replace"), stderr=err.decode("utf-8", "replace"),
                    killed=early is None)


def run_profdriver(lines):
    r = subprocess.run([PROFDRIVER], input="\n".join(lines) + "\n", capture_output=True, text=True, timeout=1200)
    if r.returncode != 0:
        raise RuntimeError("profdriver failed: " + r.stderr[-1500:])
    bad = [ln for ln in r.stdout.splitlines() if ln.startswith("X ")]
    if bad:
        raise RuntimeError("profdriver reported: " + bad[0][:400])
    return r.stdout.splitlines()


def setup_common(ctx, prop_file, theorems, need_gen):
    ok, msg = ctx.ensure_theories()
    gen = None
    if need_gen:
        gen, log = ctx.regenerate()
        if gen is None:
            ctx.broken = "regeneration failed: " + log[-2000:]
            ctx.obligations += [t for t in theorems if t not in ctx.obligations]
        else:
            proof_step(ctx, prop_file, theorems, gen=gen)
    else:
        proof_step(ctx, prop_file, theorems)
    env = ProfEnv(ctx)
    env.gen = gen
    err = env.build()
    if err is None:
        err = env.learn_cache_dir()
    if err:
        p = ctx.violation("broken-obligation", dict(what=err), False)
        rewrite_with_replay_cmd(ctx, p)
        return None
    return env


DOCUMENTED_PROFILER_FLAGS = ["allow", "b", "d", "format", "out", "pkg", "t"]


def undocumented_flags(env):
    """Flags the profiler of the CURRENT tree registers besides the documented ones: [(name, kind of registration)]."""
    if not getattr(env, "gen", None):
        return []
    try:
        text = open(os.path.join(env.gen, "GenAmbient.v")).read()
    except OSError:
        return []
    m = re.search(r"Definition profiler_flags .*?:= \[(.*?)\]\.", text, re.S)
    if not m:
        return []
    return [(a, b) for a, b in re.findall(r'\("([^"]*)"%string, "([^"]*)"%string\)', m.group(1)) if a not in DOCUMENTED_PROFILER_FLAGS]


def c17_new_flag_runs(ctx, env, flag, kind, listing_path, cold_stdout):
    """A flag the model does not know: the profiler is run WITH it first (several values), then without it on the same
    binary path. The plain run must print the cold-cache profile (or fail)."""
    values = [None] if kind.startswith("Bool") else ["main\\.", "x", ".", "^$", "1", "0", "amd64", "386", "/dev/null", "true"]
    for v in values:
        d = env.new_case_dir()
        b, _h = env.place(d, "X86_64", "v1", base="newflag")
        args = ["-" + flag] + ([] if v is None else [v])
        r1 = env.run(b, ["-format", "config"] + args, listing_path)
        r2 = env.run(b, ["-format", "config"], listing_path)
        env.snapshot(b)
        env.cleanup_case(b)
        if r2["rc"] == 0 and r2["stdout"] != cold_stdout:
            return dict(flag=flag, value=v, first_run_rc=r1["rc"], plain_run_profile=r2["stdout"][:1500], expected_profile=cold_stdout[:1500])
    return None


# ------------------------------------------------------------------------------------------------ listings
def site_lines(an, num, kind, lineno, fmt):
    """Disassembly lines of one syscall site. kind: 'call' (number on the stack, call of syscall.Syscall) or 'raw'."""
    n = {"hex": "0x%x" % num, "dec": "%d" % num}[fmt]
    if kind == "call":
        fn = ["syscall.Syscall(SB)", "syscall.Syscall6(SB)", "syscall.RawSyscall(SB)", "golang.org/x/sys/unix.Syscall(SB)"][lineno % 4]
        mov = "MOVQ" if an == "X86_64" else "MOVL"
        return ["  f.go:%d\t0x%x\t48c70424\t%s $%s, 0(SP)\t" % (lineno, 0x401000 + lineno * 8, mov, n),
                "  f.go:%d\t0x%x\te8000000\tCALL %s\t" % (lineno + 1, 0x401004 + lineno * 8, fn)]
    return ["  f.go:%d\t0x%x\tb8000000\tMOVL $%s, AX\t" % (lineno, 0x401000 + lineno * 8, n),
            "  f.go:%d\t0x%x\t0f05\t%s\t" % (lineno + 1, 0x401004 + lineno * 8, RAW_INSN[an])]


def make_listing(rng, an, sites, filler=(0, 3), tail_fill=0):
    """sites: list of numbers (table or not). Returns the text of a synthetic `go tool objdump` listing."""
    out = []
    lineno = 10
    fidx = 0
    i = 0
    while i < len(sites) or fidx == 0:
        out.append("TEXT main.f%d(SB) /src/f.go" % fidx)
        fidx += 1
        for _ in range(rng.randint(1, 4)):
            if i >= len(sites):
                break
            for _f in range(rng.randint(*filler)):
                out.append("  f.go:%d\t0x%x\t90\tNOPL\t" % (lineno, 0x401000 + lineno * 8))
                lineno += 1
            out += site_lines(an, sites[i], rng.choice(["call", "raw"]), lineno, rng.choice(["hex", "hex", "dec"]))
            lineno += 2
            i += 1
        out.append("  f.go:%d\t0x%x\tc3\tRET\t" % (lineno, 0x401000 + lineno * 8))
        lineno += 1
    if tail_fill:
        out.append("TEXT main.tail(SB) /src/f.go")
        for _ in range(tail_fill):
            out.append("  f.go:%d\t0x%x\t90\tNOPL\t" % (lineno, 0x401000 + lineno * 8))
            lineno += 1
    return "\n".join(out) + "\n"


def load_tables(ctx):
    """The constants and tables of the running package (header of `harness compile`)."""
    r = ctx.run_harness(["compile"], "")
    if r.returncode != 0:
        raise RuntimeError("harness compile failed: " + r.stderr[-1500:])
    consts, arches = parse_header(r.stdout)
    return r.stdout, consts, arches


# ------------------------------------------------------------------------------------------------ C17
def c17_listing(rng, an, table, nbytes):
    """A listing of about nbytes bytes whose syscall sites are spread from the first to the last line."""
    nums = [n for (n, _) in table]
    nsites = rng.randint(6, 12)
    sites = rng.sample(nums, nsites)
    per = max(1, nbytes // (nsites * 26))
    text = make_listing(rng, an, sites, filler=(max(0, per - 3), per + 3))
    # the last site must be at the very end: a truncated copy then has fewer syscalls
    return text, sites


def c17_histories(rng, tier, total_of, small_of):
    """History shapes: list of dicts(first=[steps], seed=[files]) ; a step is a dict(kind, k / lim / variant)."""
    hs = []
    big = total_of
    ks = [0, 1, 30, 63, 64, 65, 4030, 4031, 4032, 4096, 8127, 8128, 8129, big - 4096, big - 1, big]
    lims = [0, 1, 63, 64, 65, 66, 100, 4095, 4096, 4097, 8192, 65 + big - 1, 65 + big]
    if tier != "quick":
        ks += list(range(0, big, 97)) + [4031 + 4096 * i + d for i in range(0, big // 4096) for d in (-1, 0, 1)]
        lims += list(range(0, 65 + big, 89))
    ks = sorted(set(k for k in ks if 0 <= k <= big))
    lims = sorted(set(x for x in lims if x >= 0))
    for k in ks:
        hs.append(dict(first=[dict(kind="kill", k=k)]))
        hs.append(dict(first=[dict(kind="fail", k=k)]))
    for lim in lims:
        hs.append(dict(first=[dict(kind="fsize", lim=lim)]))
    # a listing that fits the 4096-byte buffer together with the hash line: nothing is written before the final Flush
    for lim in [0, 63, 64, 65, 66, 100, 65 + small_of - 1, 65 + small_of]:
        hs.append(dict(first=[dict(kind="fsize", lim=lim)], small=True))
    for k in [0, 1, small_of // 2, small_of - 1, small_of]:
        hs.append(dict(first=[dict(kind="kill", k=k)], small=True))
        hs.append(dict(first=[dict(kind="fail", k=k)], small=True))
    # every class of exit status a tool can end with (1, 2: ordinary; 126, 127: shell "cannot execute" / "not found"; 128 and
    # 128+n: shell convention for signals; 255)
    for rc_ in (1, 2, 125, 126, 127, 128, 129, 137, 143, 254, 255):
        hs.append(dict(first=[dict(kind="fail", k=rng.choice([0, 3000, big]), rc=rc_)]))
    hs.append(dict(first=[dict(kind="ok")], small=True))
    hs.append(dict(first=[dict(kind="missing")]))
    # the tool dies from a signal after part of its output (no exit status at all)
    for sig in ("KILL", "TERM", "SEGV", "ABRT"):
        for k in (0, 5000, big):
            hs.append(dict(first=[dict(kind="fail", k=k, sig=sig)]))
    hs.append(dict(first=[dict(kind="fail", k=small_of // 2, sig="KILL")], small=True))
    # the temporary directory of the process ($TMPDIR) is on another file system than the cache directory
    for lim in (4096, 8192, 65 + big - 1):
        hs.append(dict(first=[dict(kind="fsize", lim=lim)], tmpdir="other"))
    hs.append(dict(first=[dict(kind="kill", k=8128)], tmpdir="other"))
    hs.append(dict(first=[dict(kind="fail", k=5000)], tmpdir="other"))
    hs.append(dict(first=[dict(kind="ok")], tmpdir="other"))
    # the binary is replaced and the NEXT run has no working disassembler: it must fail, not answer from the old entry
    hs.append(dict(first=[dict(kind="ok"), dict(kind="missing", variant="v2")], final_variant="v2"))
    hs.append(dict(first=[dict(kind="ok"), dict(kind="unstartable", how="badinterp", variant="v2"), dict(kind="fail", k=0, variant="v2")], final_variant="v2"))
    hs.append(dict(first=[dict(kind="ok", variant="v2"), dict(kind="missing")]))
    # the tool is found on PATH but cannot be started (missing interpreter, not an executable format, empty file)
    for how in ("badinterp", "noformat", "empty"):
        hs.append(dict(first=[dict(kind="unstartable", how=how)]))
    hs.append(dict(first=[dict(kind="unstartable", how="badinterp")], small=True))
    hs.append(dict(first=[dict(kind="ok", variant="v2"), dict(kind="unstartable", how="noformat")]))
    # binaries with long file names: up to 229 bytes the temporary name (name + 11 + ".tmp-" + up to 10 digits) fits
    # NAME_MAX = 255; from 239 on it never fits although the final name (name + 11) does, and every run fails before
    # anything is written (230..238 depend on the random suffix and are left out)
    for nl in (200, 229, 239, 244):
        for k in (0, 5000, big):
            hs.append(dict(first=[dict(kind="fail", k=k)], namelen=nl))
        hs.append(dict(first=[dict(kind="fsize", lim=4096)], namelen=nl))
        hs.append(dict(first=[dict(kind="ok")], namelen=nl))
        hs.append(dict(first=[dict(kind="unstartable", how="badinterp")], namelen=nl))
    # an incident on one build, then the binary is REPLACED by a build with a shorter listing and profiled normally
    for k in (4031, 4032, 8128, big - 4096, big - 1, big):
        hs.append(dict(first=[dict(kind="kill", k=k)], final_variant="v2"))
    hs.append(dict(first=[dict(kind="fail", k=big)], final_variant="v2"))
    hs.append(dict(first=[dict(kind="ok")], final_variant="v2"))
    hs.append(dict(first=[dict(kind="fsize", lim=8192)], final_variant="v2"))
    hs.append(dict(first=[dict(kind="kill", k=big), dict(kind="kill", k=3000, variant="v2")], final_variant="v2"))
    hs.append(dict(first=[], seed=[dict(kind="T", prefix=65 + big)], final_variant="v2"))
    hs.append(dict(first=[dict(kind="ok")]))                                  # plain cache hit
    hs.append(dict(first=[dict(kind="ok", variant="v2")]))                    # the binary changed since the cache was written
    hs.append(dict(first=[dict(kind="ok", variant="v2"), dict(kind="fail", k=5000)]))
    # several incidents in a row
    for _ in range(6 if tier == "quick" else 60):
        steps = []
        for _i in range(rng.randint(2, 4)):
            kind = rng.choice(["kill", "fail", "fsize", "missing", "ok2", "unstartable"])
            if kind == "kill" or kind == "fail":
                steps.append(dict(kind=kind, k=rng.choice(ks)))
                if kind == "fail" and rng.random() < 0.5:
                    steps[-1]["rc"] = rng.choice([1, 2, 126, 127, 128, 129, 137, 255])
            elif kind == "fsize":
                steps.append(dict(kind="fsize", lim=rng.choice(lims)))
            elif kind == "ok2":
                steps.append(dict(kind="ok", variant="v2"))
            elif kind == "unstartable":
                steps.append(dict(kind="unstartable", how=rng.choice(["badinterp", "noformat", "empty"])))
            else:
                steps.append(dict(kind="missing"))
        hs.append(dict(first=steps))
    # what a crash can leave behind, planted directly: temporary files with every class of prefix
    for plen in [0, 10, 64, 65, 66, 4096, 65 + big - 1, 65 + big]:
        hs.append(dict(first=[], seed=[dict(kind="T", prefix=plen)]))
    hs.append(dict(first=[dict(kind="kill", k=4032)], seed=[dict(kind="T", prefix=100), dict(kind="T", prefix=5000)]))
    # files under the final name that are not for this binary (must never be used)
    hs.append(dict(first=[], seed=[dict(kind="F", what="short63")]))
    hs.append(dict(first=[], seed=[dict(kind="F", what="prefix10")]))
    hs.append(dict(first=[], seed=[dict(kind="F", what="prefix63")]))
    hs.append(dict(first=[], seed=[dict(kind="F", what="otherhash")]))
    hs.append(dict(first=[], seed=[dict(kind="F", what="empty")]))
    # outside the property (the directory was not written by this profiler): a file with the right hash line and a
    # truncated body is trusted; the model says so too. Only the correspondence is checked.
    hs.append(dict(first=[], seed=[dict(kind="F", what="hashonly")], planted_valid=True))
    hs.append(dict(first=[], seed=[dict(kind="F", what="truncated")], planted_valid=True))
    return hs


def c17_run_history(env, hist, an, L):
    """Runs one history on the real profiler. Returns dict with the observations and the H line for the model."""
    d = env.new_case_dir()
    base = "target" if not hist.get("namelen") else ("n" * hist["namelen"])
    no_temp = len(base) + 11 + 5 + 1 > 255        # no temporary name fits: the run fails before it writes anything
    dyn = bool(hist.get("dynamic")) and (an, "v1d") in env.targets and (an, "v2d") in env.targets

    def V(v):
        return v + "d" if dyn else v
    binpath, h1 = env.place(d, an, V("v1"), base=base)
    _, h2 = env.targets[(an, V("v2"))]
    small = bool(hist.get("small"))
    listing_path, listing, l1name = (L["p3"], L["text3"], "l3") if small else (L["p1"], L["text"], "l1")
    listing2_path, listing2 = L["p2"], L["text2"]
    lbytes = listing.encode()
    l2bytes = listing2.encode()
    full1 = h1.encode() + b"\n" + lbytes
    pid = int(os.path.basename(d)[1:])
    obs = []
    toks = []
    inits = []
    nseed = 0
    for s in hist.get("seed", []):
        nseed += 1
        if s["kind"] == "T":
            c = full1[:s["prefix"]]
            env.seed_file(binpath, "T", c, nseed)
            inits.append("T %d %d %s" % (pid, 900000000 + nseed, xhex(c)))
        else:
            w = s["what"]
            if w == "short63":
                c = h1.encode()[:63]
            elif w == "prefix10":
                c = (h1[:10] + ("0" if h1[10] != "0" else "1") * 54).encode() + b"\n" + lbytes[:300]
            elif w == "prefix63":
                c = (h1[:63] + ("0" if h1[63] != "0" else "1")).encode() + b"\n" + lbytes[:300]
            elif w == "otherhash":
                c = h2.encode() + b"\n" + l2bytes
            elif w == "empty":
                c = b""
            elif w == "hashonly":
                c = h1.encode()
            else:
                c = full1[:65 + 300]
            env.seed_file(binpath, "F", c)
            inits.append("F %d %s" % (pid, xhex(c)))
    fv = hist.get("final_variant", "v1")      # the build the closing normal run profiles (v2: another, SHORTER listing)
    steps = list(hist["first"]) + [dict(kind="ok", final=True, variant=fv)]
    tmpdir = None
    if hist.get("tmpdir") == "other":
        tmpdir = os.path.join(d, "tmp-elsewhere")       # the case directory lives on /dev/shm, the cache under the home directory
        os.makedirs(tmpdir, exist_ok=True)
    cur_variant = "v1"
    for i, st in enumerate(steps):
        variant = st.get("variant", "v1")
        if variant != cur_variant:
            env.place(d, an, V(variant), base=base)
            cur_variant = variant
        hsh, lp, lb, lname = (h1, listing_path, lbytes, l1name) if variant == "v1" else (h2, listing2_path, l2bytes, "l2")
        kind = st["kind"]
        args = ["-format", "config"]
        if kind == "kill":
            k = st["k"]
            exp = 0 if 65 + k < BUFSIZE else 65 + k
            r = env.run(binpath, args, lp, k=k, kill=True, expect_size=exp, tmpdir=tmpdir)
            toks.append("K %d %s %d ok 1 @%s:0:%d" % (pid, xhex(hsh), i + 1, lname, k))
        elif kind == "fail":
            r = env.run(binpath, args, lp, mode=("sig" + st["sig"]) if st.get("sig") else "fail", k=st["k"], tmpdir=tmpdir, rc=st.get("rc"))
            toks.append("C %d %s %d fail 1 @%s:0:%d" % (pid, xhex(hsh), i + 1, lname, st["k"]))
        elif kind == "missing":
            r = env.run(binpath, args, lp, missing=True, tmpdir=tmpdir)
            toks.append("C %d %s %d missing 0" % (pid, xhex(hsh), i + 1))
        elif kind == "unstartable":
            # for the protocol this is a tool that fails without any output
            r = env.run(binpath, args, lp, unstartable=st["how"], tmpdir=tmpdir)
            toks.append("C %d %s %d missing 0" % (pid, xhex(hsh), i + 1))
        elif kind == "fsize":
            r = env.run(binpath, args, lp, fsize=st["lim"], tmpdir=tmpdir)
            toks.append("IS:%d %d %s %d ok 1 @%s:0:%d" % (st["lim"], pid, xhex(hsh), i + 1, lname, len(lb)))
        else:
            r = env.run(binpath, args, lp, tmpdir=tmpdir)
            toks.append("C %d %s %d ok 1 @%s:0:%d" % (pid, xhex(hsh), i + 1, lname, len(lb)))
        if no_temp:
            toks[-1] = "C %d %s %d missing 0" % (pid, xhex(hsh), i + 1)
        cold_key = "cold2" if variant == "v2" else ("cold3" if small else "cold")
        snap = env.snapshot(binpath)
        obs.append(dict(cold_key=cold_key, step=st, rc=r["rc"], killed=r["killed"], dumped=(r["rc"] == 0 or "Objdump File:" in r["stderr"]), cached="Using cached objdump." in r["stderr"],
                        stdout=r["stdout"], stderr_tail=r["stderr"][-400:], files=sorted("%s:%s" % (kd, describe(c)) for (kd, c) in snap),
                        final=[c for (kd, c) in snap if kd == "F"]))
    # non-vacuity: the cache written by the last run is complete and is used without the disassembler
    r = env.run(binpath, ["-format", "config"], listing_path, missing=True)
    # the disassembler is missing in this run: a profile can only come from the cache (log texts are not relied upon)
    reuse = dict(rc=r["rc"], stdout=r["stdout"], cached=(r["rc"] == 0))
    env.cleanup_case(binpath)
    shutil.rmtree(d, ignore_errors=True)
    hline = "H %d %d %d %s %d %s" % (pid, BUFSIZE, len(inits), " ".join(inits), len(steps), " ".join(toks))
    colds = dict(cold=L["cold"], cold2=L["cold2"], cold3=L["cold3"])
    if fv == "v2":
        return dict(pid=pid, hline=hline, obs=obs, reuse=reuse, hist=hist, arch=an, h1=h2, listing=listing2, cold=L["cold2"], colds=colds)
    return dict(pid=pid, hline=hline, obs=obs, reuse=reuse, hist=hist, arch=an, h1=h1, listing=listing, cold=L["cold3"] if small else L["cold"], colds=colds)


def c17_full_cache_fs(ctx, env, listing_path, listing_len, size_kib, tmp_elsewhere):
    """The cache directory lies on a file system that is too small for the disassembly (a tmpfs of size_kib KiB mounted for
    the occasion; needs the privilege to mount - returns None if it cannot), optionally with $TMPDIR on another file
    system. Three runs: on the full file system, again, and after the file system was enlarged. Every run that ends with
    status 0 must print the cold-cache profile. The profiler runs as an unknown uid so that $HOME decides where its cache
    lies (its own HOME for this scenario: nothing else uses that cache)."""
    uid = 54321
    d = env.new_case_dir()
    q = d
    while q.startswith(env.ctx.scratch) and len(q) >= len(env.ctx.scratch):
        os.chmod(q, 0o755)
        q = os.path.dirname(q)
    os.chmod(env.profiler_nocgo, 0o755)
    home, home0, tmp = os.path.join(d, "home"), os.path.join(d, "home0"), os.path.join(d, "tmp")
    cache = os.path.join(home, ".seccomp-profiler")
    for x in (home, home0, tmp, cache):
        os.makedirs(x, exist_ok=True)
        os.chown(x, uid, uid)
    binpath, _h = env.place(d, "X86_64", "v1", base="fullfs")
    os.chmod(binpath, 0o755)

    def run(h, tmpdir=None):
        e = dict(os.environ, HOME=h, USER="verif", LOGNAME="verif", PATH=env.fake + ":/usr/bin:/bin", FAKE_LISTING=listing_path, FAKE_MODE="ok", FAKE_K="", FAKE_MARK=os.path.join(d, "mark"))
        if tmpdir:
            e["TMPDIR"] = tmpdir
        with env.lock:
            env.executions += 1
        r = subprocess.run([env.profiler_nocgo, "-format", "config", binpath], env=e, capture_output=True, timeout=120, user=uid, group=uid, extra_groups=[])
        return dict(rc=r.returncode, stdout=r.stdout.decode("utf-8", "replace"), stderr=r.stderr.decode("utf-8", "replace")[-400:])
    cold = run(home0)
    if cold["rc"] != 0 or "names:" not in cold["stdout"]:
        raise RuntimeError("cold run as uid %d failed: %s" % (uid, cold["stderr"]))
    m = subprocess.run(["mount", "-t", "tmpfs", "-o", "size=%dk,mode=0777" % size_kib, "tmpfs", cache], capture_output=True, text=True)
    if m.returncode != 0:
        return None
    runs = []
    try:
        t = tmp if tmp_elsewhere else None
        runs.append(("cache file system of %d KiB, disassembly of %d bytes" % (size_kib, listing_len), run(home, t)))
        runs.append(("again", run(home, t)))
        listing_files = sorted("%s:%d" % (fn, os.path.getsize(os.path.join(cache, fn))) for fn in os.listdir(cache))
        subprocess.run(["mount", "-o", "remount,size=4m", cache], capture_output=True)
        runs.append(("after the file system was enlarged to 4 MiB", run(home, t)))
    finally:
        subprocess.run(["umount", "-l", cache], capture_output=True)
    bad = [(what, r) for (what, r) in runs if r["rc"] == 0 and r["stdout"] != cold["stdout"]]
    return dict(runs=[(w, r["rc"]) for (w, r) in runs], bad=bad, cold=cold["stdout"], files_when_full=listing_files,
                scenario=dict(size_kib=size_kib, tmp_elsewhere=tmp_elsewhere, listing_len=listing_len))


def check_C17(ctx, replay=None):
    rng = random.Random((replay or {}).get("seed", ctx.seed) * 1000003 + 17)
    env = setup_common(ctx, "C17.v", C17_THEOREMS, need_gen=True)
    if env is None:
        return
    h, err = ctx.build_harness()
    if not h:
        ctx.violation("broken-obligation", dict(what="the harness does not build against the repository", log=err[-3000:]), False)
        env.cleanup_all()
        return
    try:
        _c17_body(ctx, env, rng, replay)
    finally:
        env.cleanup_all()


def _c17_body(ctx, env, rng, replay):
    _, consts, arches = load_tables(ctx)
    nbad = 0
    ncorr = 0
    results = []
    lines = []
    dist = {}
    work = []
    arch_plan = ["X86_64", "I386", "ARM"]
    listings = {}
    for an in arch_plan:
        table = arches[an if an != "ARM" else "ARM"]["table"]
        size = rng.choice([9000, 11000, 13000])
        text, sites = c17_listing(rng, an if an != "ARM" else "X86_64", table, size)
        text2, sites2 = c17_listing(rng, an if an != "ARM" else "X86_64", table, 6000)
        text3, sites3 = c17_listing(rng, an if an != "ARM" else "X86_64", table, rng.choice([1500, 2500]))
        while len(text3) + 65 >= BUFSIZE - 200:
            text3 = text3[:text3.rfind("TEXT ")]
        d = env.new_case_dir()
        p1, p2, p3 = os.path.join(d, "l1"), os.path.join(d, "l2"), os.path.join(d, "l3")
        for (pp, tt) in ((p1, text), (p2, text2), (p3, text3)):
            with open(pp, "w") as f:
                f.write(tt)
        # cold-cache run of the same binary content and listing (own path, hence own cache file)
        b, _h = env.place(d, an, "v1", base="cold")
        r = env.run(b, ["-format", "config"], p1)
        env.snapshot(b)
        env.cleanup_case(b)
        b3, _h = env.place(d, an, "v1", base="cold3")
        r3 = env.run(b3, ["-format", "config"], p3)
        env.snapshot(b3)
        env.cleanup_case(b3)
        b2, _h = env.place(d, an, "v2", base="cold2")
        r2 = env.run(b2, ["-format", "config"], p2)
        env.snapshot(b2)
        env.cleanup_case(b2)
        listings[an] = dict(p1=p1, p2=p2, p3=p3, text=text, text2=text2, text3=text3, cold=r, cold3=r3, cold2=r2, sites=sites)
        if an != "ARM" and (r["rc"] != 0 or "names:" not in r["stdout"]):
            raise RuntimeError("cold run failed: " + r["stderr"][-800:])
        if an == "ARM" and not (r["rc"] != 0 and "names:" not in r["stdout"]):
            nbad += 1
            p = ctx.violation("counterexample", dict(what="an arm binary is expected to be refused by the disassembly parser", rc=r["rc"], stderr=r["stderr"][-500:]), True)
            rewrite_with_replay_cmd(ctx, p)
    if replay and replay.get("history"):
        plan = [(replay["arch"], replay["history"])]
    elif replay and replay.get("scenario"):
        plan = []
    else:
        plan = []
        for an in arch_plan:
            hs = c17_histories(rng, ctx.tier, len(listings[an]["text"]), len(listings[an]["text3"]))
            if an == "ARM" and ctx.tier == "quick":
                hs = rng.sample(hs, 12)
            if an == "X86_64":
                # every third history on dynamically linked (cgo) builds of the same two programs
                for k, hh in enumerate(hs):
                    if k % 3 == 1:
                        hh["dynamic"] = True
            plan += [(an, hh) for hh in hs]
    with concurrent.futures.ThreadPoolExecutor(max_workers=8) as ex:
        futs = [ex.submit(c17_run_history, env, hh, an, listings[an]) for (an, hh) in plan]
        results = [f.result() for f in futs]
    # the model on the same histories
    for an in arch_plan:
        lines.append("L l1%s %s" % (an, xhex(listings[an]["text"])))
        lines.append("L l2%s %s" % (an, xhex(listings[an]["text2"])))
        lines.append("L l3%s %s" % (an, xhex(listings[an]["text3"])))
    for res in results:
        lines.append(res["hline"].replace("@l1:", "@l1%s:" % res["arch"]).replace("@l2:", "@l2%s:" % res["arch"]).replace("@l3:", "@l3%s:" % res["arch"]))
    model = {}
    for ln in run_profdriver(lines):
        f = ln.split()
        if f and f[0] == "H":
            model.setdefault(int(f[1]), []).append((f[3], f[4:]))
    nontrivial = set()
    samples = []
    for res in results:
        an = res["arch"]
        hist = res["hist"]
        cold = res["cold"]
        key = json.dumps(hist, sort_keys=True) + an
        for st in hist["first"]:
            dist[st["kind"]] = dist.get(st["kind"], 0) + 1
        for s in hist.get("seed", []):
            dist["seed-" + s["kind"]] = dist.get("seed-" + s["kind"], 0) + 1
        mod = model.get(res["pid"], [])
        problems = []
        for i, o in enumerate(res["obs"]):
            if i >= len(mod):
                problems.append("the model gave no answer for step %d" % i)
                break
            mout, mfiles = mod[i]
            mf = sorted(re.sub(r"^(F|T):\d+:(?:\d+:)?(\d+:[0-9a-f]+)$", r"\1:\2", x) for x in mfiles)
            if mf != o["files"]:
                problems.append("step %d (%s): cache directory differs: model %s, implementation %s" % (i, json.dumps(o["step"]), mf, o["files"]))
            if o["step"]["kind"] == "kill":
                if not o["killed"]:
                    problems.append("step %d: the profiler ended by itself (rc %s) although the disassembler was still running" % (i, o["rc"]))
                continue
            mdump = mout.startswith("dump:")
            if mdump != o["dumped"]:
                problems.append("step %d (%s): model outcome %s, implementation %s (rc %d): %s" % (i, json.dumps(o["step"]), mout, "dump" if o["dumped"] else "failed", o["rc"], o["stderr_tail"][-200:]))
            elif mdump and o["final"] and mout != "dump:" + describe(o["final"][0]):
                problems.append("step %d: the dump returned differs: model %s, implementation %s" % (i, mout, describe(o["final"][0])))
            ncorr += 1
        last = res["obs"][-1]
        # the property itself, on the implementation: the final run gives the cold-cache profile or an error
        violated = None
        if not hist.get("planted_valid"):
            if an == "ARM":
                if last["rc"] == 0:
                    violated = "an arm binary produced a profile"
            elif last["rc"] == 0 and last["stdout"] != cold["stdout"]:
                violated = "the run after the history printed a profile that differs from the cold-cache profile"
            # ... and so does every EARLIER run that ended with status 0: a profile, if one is printed, is the cold-cache
            # profile of the binary that is at the path at that moment
            if an != "ARM" and not violated:
                for k2, o in enumerate(res["obs"][:-1]):
                    if o["rc"] == 0 and not o["killed"] and o["stdout"] != res["colds"][o["cold_key"]]["stdout"]:
                        violated = "run %d of the history (%s) ended with status 0 and printed a profile that is not the cold-cache profile of the binary then at the path" % (k2, json.dumps(o["step"]))
                        break
            if last["dumped"] and last["final"]:
                body = last["final"][0]
                want = res["h1"].encode() + b"\n" + res["listing"].encode()
                if body != want:
                    violated = (violated or "") + "; the disassembly used (%d bytes) is not the complete one for this binary (%d bytes)" % (len(body), len(want))
            if last["rc"] == 0 and an != "ARM" and res["reuse"]["rc"] == 0 and res["reuse"]["stdout"] != cold["stdout"]:
                violated = (violated or "") + "; the cached dump gives another profile on reuse"
        if violated:
            nbad += 1
            if nbad <= 3:
                p = ctx.violation("counterexample", dict(
                    what="C17: " + violated, arch=an, history=hist, expected_profile=cold["stdout"][:1500], actual_profile=last["stdout"][:1500],
                    observations=[dict(step=o["step"], rc=o["rc"], files=o["files"], cached=o["cached"]) for o in res["obs"]],
                    model_differences=problems[:4]), True)
                rewrite_with_replay_cmd(ctx, p)
        elif problems:
            if len([1 for v in ctx.violations]) < 3:
                p = ctx.violation("correspondence", dict(
                    what="C17: the cache-protocol model and the implementation differ on this history; the final run still gave the cold-cache profile or an error",
                    arch=an, history=hist, differences=problems[:6],
                    observations=[dict(step=o["step"], rc=o["rc"], files=o["files"], cached=o["cached"]) for o in res["obs"]]), False)
                rewrite_with_replay_cmd(ctx, p)
        if hist["first"] or hist.get("seed"):
            left = any(x.startswith("T:") for o in res["obs"][:-1] for x in o["files"]) or any(o["rc"] != 0 for o in res["obs"][:-1]) or hist.get("seed")
            if left:
                nontrivial.add(key)
        if len(samples) < 3 and hist["first"]:
            samples.append(dict(arch=an, history=hist, steps=[dict(step=o["step"], rc=o["rc"], files=o["files"], cached=o["cached"]) for o in res["obs"]],
                                final_profile_equals_cold=(last["stdout"] == cold["stdout"])))
    # flags that the profiler of this tree registers and the model does not know: with the flag first, then without it
    if not replay or replay.get("new_flag"):
        for (fl, kd) in undocumented_flags(env):
            if replay and replay.get("new_flag") != fl:
                continue
            res = c17_new_flag_runs(ctx, env, fl, kd, listings["X86_64"]["p1"], listings["X86_64"]["cold"]["stdout"])
            if res:
                nbad += 1
                p = ctx.violation("counterexample", dict(
                    what="C17: after a run with the (undocumented) flag -%s the plain run on the same binary printed a profile that is not the cold-cache profile: the cached disassembly is not complete for the binary" % fl,
                    new_flag=fl, **res), True)
                rewrite_with_replay_cmd(ctx, p)
                break
    # the cache directory on a file system that is too small for the disassembly (needs the privilege to mount a tmpfs;
    # recorded as skipped otherwise)
    fullfs = []
    if not (replay and replay.get("history")):
        L = listings["X86_64"]
        combos = [(8, True), (8, False), (4, True), (12, True)] if ctx.tier == "quick" else [(k, t) for k in (4, 8, 12, 16) for t in (True, False)]
        if replay and replay.get("scenario"):
            combos = [(replay["scenario"]["size_kib"], replay["scenario"]["tmp_elsewhere"])]
        for (kib, elsewhere) in combos:
            if kib * 1024 >= len(L["text"]) + 65:
                continue        # the disassembly would fit
            res = c17_full_cache_fs(ctx, env, L["p1"], len(L["text"]), kib, elsewhere)
            if res is None:
                fullfs.append("skipped: mounting a tmpfs is not permitted here")
                break
            fullfs.append(dict(scenario=res["scenario"], exit_status_of_runs=res["runs"], files_when_full=res["files_when_full"]))
            if res["bad"]:
                nbad += 1
                what, r = res["bad"][0]
                p = ctx.violation("counterexample", dict(
                    what="C17: with the cache directory on a file system too small for the disassembly, the run '%s' ended with status 0 and printed a profile that is not the cold-cache profile" % what,
                    scenario=res["scenario"], exit_status_of_runs=res["runs"], files_in_the_cache_when_full=res["files_when_full"],
                    expected_profile=res["cold"][:1500], actual_profile=r["stdout"][:1500]), True)
                rewrite_with_replay_cmd(ctx, p)
                break
    reused = sum(1 for res in results if res["reuse"]["cached"] and res["arch"] != "ARM")
    ctx.coverage["full_cache_file_system"] = fullfs
    ctx.coverage.update(dict(
        evaluations=env.executions, histories=len(results), distinct_nontrivial=len(nontrivial),
        rule="histories of the real seccomp-profiler binary (fake `go tool objdump` on PATH emitting a synthetic listing of 9-13 KB with syscall sites up to its last line): first runs cut by SIGKILL after the tool wrote k bytes, tool exiting non-zero after k bytes, tool dying from SIGKILL / SIGTERM / SIGSEGV / SIGABRT after k bytes, $TMPDIR on another file system than the cache, the binary replaced and then a run without a working tool, the cache directory on a tmpfs of 4..16 KiB that cannot hold the disassembly (with and without $TMPDIR elsewhere; three runs: full, again, enlarged), tool missing, tool present on PATH but not startable (missing interpreter, no executable format, empty file), binaries whose file name has 200/229 bytes (temporary name fits NAME_MAX) and 239/244 bytes (only the final name fits: every run must fail), write failing at a file size limit (RLIMIT_FSIZE), the binary replaced by another one (with a shorter listing) at the same path - in the middle of a history and before the closing normal run -, planted temporary files with every class of prefix, planted final files that are not for this binary; k and limits around 0, 64/65, 4031 (=4096-65), multiples of 4096, the end; then a normal run whose profile is compared with a cold-cache run and whose cache directory after every step is compared with the extracted model (names modulo the random suffix); non-trivial = distinct history whose first part left a file behind, failed, or started from planted files",
        traces_validated_against_impl=ncorr, counterexamples=nbad, cache_reused_without_tool=reused,
        input_distribution=dict(step_kinds=dist, arches={an: sum(1 for r in results if r["arch"] == an) for an in arch_plan}),
        samples=samples))
    ctx.assumptions += ["file system: rename is atomic, a file contains what was written to it (F1-F3 of Profiler.v)",
                        "the disassembler exits 0 only after its complete output (T1); SHA-256 identifies the binary (H1)",
                        "the cache directory is written only by this (repaired) profiler: a planted file with the right hash line and a truncated body is trusted (model and implementation agree)",
                        "crash = SIGKILL between system calls; power loss / reordering of unsynced writes is not modelled"]
    ctx.notes.append("partial proof: the theorems are about the file-system state machine of coq/theories/Profiler.v (directory = finite map, "
                     "atomic rename, sequential runs, crash = death between or inside system calls); the model cannot exhibit concurrent "
                     "profiler processes, loss or reordering of unsynced data at power failure, a failing hashBinary (empty hash), or a "
                     "temporary name that collides with another binary's final name; the tie to the real binary is the correspondence above")
    ctx.violations.sort(key=lambda v: v[1])
    finish_with_proof_status(ctx, nbad, "C17 theorems over the cache protocol model")


# ------------------------------------------------------------------------------------------------ C18
SEPS = [",", ";", " ", "\t", ", ", " ;", ",,", "\n", "\r\n", "\r", "\v", "\f", "\u0085", "\u00a0", "\u2003", "\u3000", "\u2028", "\u1680"]
# unicode.IsSpace (Go): the white space characters of the flag values
GO_SPACES = "\t\n\v\f\r \u0085\u00a0\u1680\u2000\u2001\u2002\u2003\u2004\u2005\u2006\u2007\u2008\u2009\u200a\u2028\u2029\u202f\u205f\u3000"


def ascii_seps(v):
    """The Coq model of the flag values works on bytes and knows the ASCII separators only: white space outside ASCII
    is handed to it as a blank (the implementation gets the value as written)."""
    return "".join(" " if (ch in GO_SPACES and ord(ch) > 127) else ch for ch in v)


def c18_flag_occurrences(rng, names):
    """Split a list of names over 1..3 occurrences of a flag, joined by assorted separators."""
    if not names:
        return []
    k = rng.randint(1, min(3, len(names)))
    cuts = sorted(rng.sample(range(1, len(names)), k - 1)) if k > 1 else []
    parts = [names[a:b] for a, b in zip([0] + cuts, cuts + [len(names)])]
    occ = []
    for part in parts:
        s = ""
        for j, nm in enumerate(part):
            s += (rng.choice(SEPS) if j else rng.choice(["", "", " ", ","])) + nm
        s += rng.choice(["", "", ",", " ", ";"])
        occ.append(s)
    # occurrences that name NOTHING (empty, blank, separators only - what `-b "$EXTRA"` gives with EXTRA unset): they add
    # nothing and take nothing away, wherever they stand (before, between, behind the occurrences that name something)
    if rng.random() < 0.4:
        for _ in range(rng.randint(1, 2)):
            occ.insert(rng.choice([0, len(occ), len(occ), rng.randint(0, len(occ))]), rng.choice(["", "", " ", ",", ";, ", "\t"]))
    return occ


def py_fields(s):
    return [x for x in re.split("[" + GO_SPACES + ",;]+", s) if x]


def bpf_run(prog, nr, archw):
    """The four instruction kinds the library emits, on an event with the given number and architecture word."""
    a = 0
    pc = 0
    while pc < len(prog):
        ins = prog[pc]
        kind = ins[0]
        if kind == "ld":
            off = ins[1]
            a = nr if off == 0 else archw if off == 4 else 0
            pc += 1
        elif kind == "jif":
            _, c, k, jt, jf = ins
            t = {"eq": a == k, "ne": a != k, "gt": a > k, "lt": a < k, "ge": a >= k, "le": a <= k, "set": (a & k) != 0, "nset": (a & k) == 0}[c]
            pc += 1 + (jt if t else jf)
        elif kind == "ja":
            pc += 1 + ins[1]
        else:
            return ins[1]
    return None


def parse_prog(tokens):
    prog = []
    for t in tokens:
        f = t.split(":")
        if f[0] == "ld":
            prog.append(("ld", int(f[1])))
        elif f[0] == "jif":
            prog.append(("jif", f[1], int(f[2]), int(f[3]), int(f[4])))
        elif f[0] == "ja":
            prog.append(("ja", int(f[1])))
        elif f[0] == "ret":
            prog.append(("ret", int(f[1])))
        else:
            prog.append(("bad", t))
    return prog


def c18_cases(rng, tier, arches):
    cases = []
    other = {"X86_64": ["socketcall", "_llseek", "arm_fadvise64_64", "waitpid"], "I386": ["arch_prctl", "semget", "arm_fadvise64_64", "shmat"]}
    for an in ("X86_64", "I386"):
        table = arches[an]["table"]
        names_all = [s for (_, s) in table]
        nums = [n for (n, _) in table]
        maxn = max(nums)
        unknown_nums = [n for n in (maxn + 1, maxn + 77, 9999, 0x7fffffff) if n not in set(nums)]
        looks_odd = [s for s in names_all if re.match(r"^[0-9_]", s) or s in ("time", "select", "exit", "nice", "pause", "sync")]
        # the whole table as found set: every name's rendering in YAML and in Go source is exercised
        cases.append(dict(arch=an, kind="whole_table", sites=list(nums), bl=[], al=[], fmt="config"))
        cases.append(dict(arch=an, kind="whole_table", sites=list(nums), bl=[], al=[], fmt="code"))
        cases.append(dict(arch=an, kind="empty", sites=[], bl=[], al=[], fmt="config"))
        cases.append(dict(arch=an, kind="empty_allow_all", sites=[], bl=[], al=[" ".join(names_all)], fmt="config"))
        cases.append(dict(arch=an, kind="only_unknown_numbers", sites=unknown_nums, bl=[], al=[], fmt="config"))
        n = 40 if tier == "quick" else 400
        for i in range(n):
            ns = rng.choice([1, 3, 8, 20, 60])
            found = [rng.choice(nums) for _ in range(ns)]
            found += [rng.choice(found) for _ in range(rng.randint(0, ns))]            # repeated sites
            found += [rng.choice(unknown_nums) for _ in range(rng.randint(0, 2))]     # numbers without a name
            if rng.random() < 0.5:
                found += [min(nums)] + ([max(nums)] if rng.random() < 0.5 else [])    # boundary numbers (0: the zero value of a failed lookup)
            rng.shuffle(found)
            fnames = sorted(set(dict(table)[x] for x in found if x in dict(table)))
            notfound = [s for s in names_all if s not in fnames]
            shape = rng.choice(["none", "bl", "al", "disjoint", "disjoint", "overlap", "junk", "junk"])
            bl, al = [], []
            if shape in ("bl", "disjoint", "overlap", "junk"):
                bl = rng.sample(fnames, min(len(fnames), rng.randint(1, 4))) + rng.sample(notfound, rng.randint(0, 2))
            if shape in ("al", "disjoint", "overlap", "junk"):
                al = rng.sample(notfound, rng.randint(1, 5)) + rng.sample(fnames, min(len(fnames), rng.randint(0, 2)))
                al = [x for x in al if x not in bl]
            if shape == "overlap":
                common = rng.sample(fnames, min(len(fnames), 2)) + rng.sample(notfound, 1)
                bl += common
                al += common
            if shape == "junk":
                junk = ["bogus", "READ", "123", "read.", "-", "0x3b", "getpid\u0000"[:6]] + other[an] + looks_odd[:3]
                bl += rng.sample(junk, 2)
                al += rng.sample(junk, 3) + rng.sample(other[an], 2)
                al += [al[0]] if al else []
            rng.shuffle(bl)
            rng.shuffle(al)
            cases.append(dict(arch=an, kind=shape, sites=found, bl=c18_flag_occurrences(rng, bl), al=c18_flag_occurrences(rng, al),
                              fmt=rng.choice(["config", "config", "code"]), out=rng.choice([None, None, None, "new", "existing"])))
        # boundary sizes: a syscall found 255 / 256 / 257 / 512 times; deny lists of exactly 15 / 16 / 17 / 32 / 33 / 64 / 65 names
        for mult in (255, 256, 257, 512, 65536 if tier != "quick" else 1024):
            base = rng.sample(nums, 6)
            found = [base[0]] * mult + base[1:] + [base[1]] * 3
            cases.append(dict(arch=an, kind="multiplicity_%d" % mult, sites=found, bl=[], al=[], fmt="config"))
        for nb in (15, 16, 17, 32, 33, 64, 65):
            found = rng.sample(nums, min(len(nums), nb + 10))
            fn = [dict(table)[x] for x in found]
            bl = rng.sample(fn, nb - 3) + rng.sample([s for s in names_all if s not in fn], 3)
            rng.shuffle(bl)
            cases.append(dict(arch=an, kind="denylist_%d" % nb, sites=found, bl=c18_flag_occurrences(rng, bl) if nb % 2 else [",".join(bl)], al=[], fmt="config"))
        cases.append(dict(arch=an, kind="debug_yaml", sites=[rng.choice(nums) for _ in range(12)], bl=[], al=[names_all[0]], fmt="config", debug=True))
        cases.append(dict(arch=an, kind="empty_flag_values", sites=[nums[0], nums[1]], bl=["", " ,; "], al=[",", ""], fmt="config"))
    cases.append(dict(arch="ARM", kind="arm_refused", sites=[1, 2, 3], bl=[], al=["read"], fmt="config"))
    return cases


def c18_run_case(env, case, arches):
    an = case["arch"]
    d = env.new_case_dir()
    binpath, _h = env.place(d, an, "v1")
    lrng = random.Random(json.dumps(case["sites"])[:2000])
    text = make_listing(lrng, an if an != "ARM" else "X86_64", case["sites"])
    lp = os.path.join(d, "listing")
    with open(lp, "w") as f:
        f.write(text)
    args = ["-format", case["fmt"]]
    if case.get("debug"):
        args.append("-d")
    if case["fmt"] == "code":
        args += ["-pkg", "profile"]
    for v in case["bl"]:
        args += ["-b", v]
    for v in case["al"]:
        args += ["-allow", v]
    # -out <file>: a new file, or one that exists already and is longer than what is written now (an earlier profile)
    target = None
    if case.get("out"):
        target = os.path.join(d, "profile-out")
        if case["out"] == "existing":
            with open(target, "w") as f:
                f.write("seccomp:\n  default_action: errno\n  syscalls:\n  - action: allow\n    names:\n" + "".join("    - earlier_name_%d\n" % k for k in range(2500)))
        args += ["-out", target]
    r = env.run(binpath, args, lp)
    env.snapshot(binpath)
    env.cleanup_case(binpath)
    if target is not None:
        try:
            with open(target, errors="replace") as f:
                r["stdout"] = f.read()
        except OSError:
            r["stdout"] = ""
    outp = os.path.join(d, "out.go" if case["fmt"] == "code" else "out.yaml")
    with open(outp, "w") as f:
        f.write(r["stdout"])
    return dict(case=case, rc=r["rc"], stdout=r["stdout"], stderr=r["stderr"], outfile=outp, dir=d)


def check_C18(ctx, replay=None):
    rng = random.Random((replay or {}).get("seed", ctx.seed) * 1000003 + 18)
    env = setup_common(ctx, "C18.v", C18_THEOREMS, need_gen=True)
    if env is None:
        return
    h, err = ctx.build_harness()
    if not h:
        ctx.violation("broken-obligation", dict(what="the harness does not build against the repository", log=err[-3000:]), False)
        env.cleanup_all()
        return
    try:
        _c18_body(ctx, env, rng, replay)
    finally:
        env.cleanup_all()


def _c18_body(ctx, env, rng, replay):
    header, consts, arches = load_tables(ctx)
    ERRNO, ALLOW = consts["errno"], 0x7fff0000
    DENY = ERRNO | consts["eperm"]
    if replay and replay.get("case"):
        cases = [replay["case"]]
    else:
        cases = c18_cases(rng, ctx.tier, arches)
    with concurrent.futures.ThreadPoolExecutor(max_workers=8) as ex:
        results = list(ex.map(lambda c: c18_run_case(env, c, arches), cases))
    # the model
    lines = []
    for an in ("X86_64", "I386", "ARM"):
        t = arches[an]["table"]
        lines.append("T %s %d %s" % (an, len(t), " ".join("%d %s" % (n, xhex(s)) for (n, s) in t)))
    for i, res in enumerate(results):
        c = res["case"]
        tbl = dict(arches[c["arch"]]["table"])
        found = [(n, tbl[n]) for n in c["sites"] if n in tbl]
        res["found"] = found
        lines.append("N %d %s %d %s %d %s %d %s" % (i, c["arch"], len(found), " ".join("%d %s" % (n, xhex(s)) for (n, s) in found),
                                                    len(c["bl"]), " ".join(xhex(ascii_seps(v)) for v in c["bl"]), len(c["al"]), " ".join(xhex(ascii_seps(v)) for v in c["al"])))
    model = {}
    for ln in run_profdriver(lines):
        f = ln.split()
        if f and f[0] == "N":
            model[int(f[1])] = [bytes.fromhex(x[1:]).decode() for x in f[3:]]
    # the implementation's output read back: YAML through the configuration path, Go source through go/parser
    yin, gin = [], []
    for i, res in enumerate(results):
        if res["rc"] != 0:
            continue
        if res["case"]["fmt"] == "config":
            yin.append("Y %d 1 %s %s" % (i, res["case"]["arch"], res["outfile"]))
        else:
            gin.append("G %d %s" % (i, res["outfile"]))
    loaded = {}
    r = ctx.run_harness(["loadyaml"], "\n".join(yin) + "\n")
    for ln in r.stdout.splitlines():
        f = ln.split(" ", 2)
        if f[0] == "Y":
            pol, _, prog = f[2].partition(" | ")
            loaded[int(f[1])] = (pol.strip(), prog.strip())
    r = ctx.run_harness(["gocode"], "\n".join(gin) + "\n")
    for ln in r.stdout.splitlines():
        f = ln.split(" ", 2)
        if f[0] == "G":
            loaded[int(f[1])] = (f[2], None)
    nbad = 0
    ndiff = 0
    ncorr = 0
    nevents = 0
    dist = {}
    nontrivial = set()
    samples = []
    drv = [ln for ln in header.splitlines() if ln.startswith("K ") or ln.startswith("A ")]
    drv_cases = {}

    def report(kind, i, what, found_input, **kw):
        nonlocal nbad, ndiff
        res = results[i]
        if found_input:
            nbad += 1
        else:
            ndiff += 1
        if len(ctx.violations) < 4:
            p = ctx.violation(kind, dict(what="C18: " + what, case=res["case"], rc=res["rc"], stdout=res["stdout"][:3000], stderr=res["stderr"][-600:],
                                         model_names=model.get(i), **kw), found_input)
            rewrite_with_replay_cmd(ctx, p)

    for i, res in enumerate(results):
        c = res["case"]
        an = c["arch"]
        dist[c["kind"] + "/" + c["fmt"]] = dist.get(c["kind"] + "/" + c["fmt"], 0) + 1
        if an == "ARM":
            if res["rc"] == 0:
                report("counterexample", i, "an arm binary is expected to be refused (no disassembly parser); got a profile", True)
            continue
        tbl = arches[an]["table"]
        name_of = dict(tbl)
        num_of = {s: n for (n, s) in tbl}
        want = model.get(i)
        if res["rc"] != 0:
            report("counterexample", i, "the profiler failed on a well-formed listing", True)
            continue
        # what was found, as the profiler itself logs it (validates the site model)
        m1 = re.search(r"Found (\d+) total syscalls", res["stderr"])
        m2 = re.search(r"Found (\d+) unique syscalls", res["stderr"])
        # (log texts are not part of any property: only used when they have the known form)
        if m1 and m2 and (int(m1.group(1)) != len(res["found"]) or int(m2.group(1)) != len(set(n for n, _ in res["found"]))):
            report("correspondence", i, "the number of syscall sites the profiler reports differs from the site model (%s total, %s unique expected %d/%d)"
                   % (m1 and m1.group(1), m2 and m2.group(1), len(res["found"]), len(set(n for n, _ in res["found"]))), False)
            # (no `continue`: the profile itself is judged below against the property text)
        got_names = None
        if c["fmt"] == "config":
            pol, prog = loaded.get(i, ("-", "LOADERR"))
            f = pol.split()
            if prog.startswith("LOADERR") or prog.startswith("PANIC") or not f or f[0] == "-":
                report("counterexample", i, "the emitted YAML does not load through the configuration path: " + prog[:200], True)
                continue
            # policy tokens: default ngroups action nnames names... nnwc
            try:
                default, ng = int(f[0]), int(f[1])
                action, nn = int(f[2]), int(f[3])
                got_names = [bytes.fromhex(x[1:]).decode() for x in f[4:4 + nn]]
                nwc = int(f[4 + nn])
                shape_ok = ng == 1 and nwc == 0 and len(f) == 5 + nn
            except (ValueError, IndexError):
                shape_ok, default, action = False, None, None
            if not shape_ok or default != ERRNO or action != ALLOW:
                report("counterexample", i, "the loaded policy is not {default errno, one allow group}: " + pol[:200], True, loaded_policy=pol[:400])
                continue
        else:
            desc, _ = loaded.get(i, ("PARSEERR", None))
            if not desc.startswith("OK "):
                report("counterexample", i, "the emitted Go source does not parse: " + desc[:300], True)
                continue
            mm = re.match(r"OK pkg=(\S+) tag=(\S+) imports=(\S+) var=(\S+) type=(\S+) default=(\S+) groups=(\d+) action=(\S+) extra=(\d+) names (-?\d+) ?(.*)$", desc)
            if not mm:
                report("counterexample", i, "the emitted Go source has an unexpected shape: " + desc[:300], True)
                continue
            got_names = [bytes.fromhex(x[1:]).decode() for x in mm.group(11).split()]
            tag = bytes.fromhex(mm.group(2)[1:]).decode()
            if (mm.group(1) != "profile" or mm.group(5) != "seccomp.Policy" or mm.group(6) != "seccomp.ActionErrno" or mm.group(7) != "1"
                    or mm.group(8) != "seccomp.ActionAllow" or mm.group(9) != "0" or tag != "+build linux," + GOARCH_OF[an]):
                report("counterexample", i, "the emitted Go source is not {DefaultAction errno, one allow group} for linux/%s: %s" % (GOARCH_OF[an], desc[:300]), True)
                continue
        ncorr += 1
        # the property text, directly on the implementation's output
        bl = [x for v in c["bl"] for x in py_fields(v)]
        al = [x for v in c["al"] for x in py_fields(v)]
        fnames = set(s for (_, s) in res["found"])
        spec = sorted((fnames - set(bl)) | set(x for x in al if x in num_of), key=lambda s: s.encode())
        problems = []
        if got_names != sorted(got_names, key=lambda s: s.encode()):
            problems.append("not sorted")
        if len(set(got_names)) != len(got_names):
            problems.append("duplicates")
        if any(x not in num_of for x in got_names):
            problems.append("names unknown to the architecture: %s" % [x for x in got_names if x not in num_of][:5])
        disjoint = not (set(bl) & set(al))
        if set(got_names) != set(spec):
            problems.append("members differ from (found - blacklisted) + allowed: missing %s, extra %s" % (sorted(set(spec) - set(got_names))[:6], sorted(set(got_names) - set(spec))[:6]))
        if problems:
            report("counterexample" if (disjoint or problems[0] != problems[-1] or "members" not in problems[0]) else "correspondence", i,
                   "; ".join(problems), True if (disjoint or "members" not in problems[-1] or len(problems) > 1) else False, emitted=got_names[:50], expected=spec[:50])
            continue
        if got_names != want:
            report("correspondence", i, "the emitted list differs from the model's", False, emitted=got_names[:50])
            continue
        if got_names and (bl or al or c["kind"] == "whole_table"):
            nontrivial.add(json.dumps([an, sorted(fnames), bl, al, c["fmt"]]))
        if c["fmt"] == "config":
            # the filter compiled from the loaded YAML: exhaustive over the table, plus numbers without a name
            pol, prog = loaded[i]
            ptoks = "%d 1 %d %d %s 0" % (ERRNO, ALLOW, len(want), " ".join(xhex(s) for s in want))
            drv.append("P %d 1 %s %s | %s" % (i, an, ptoks.replace("  ", " "), prog))
            aid = arches[an]["id"]
            evs = [n for (n, _) in tbl] + [max(name_of) + 1, max(name_of) + 1000, 0x3fffffff]
            for n in evs:
                drv.append("V %d %d 0 0 0 0 0 0 0" % (n, aid))
            drv_cases[i] = evs
            if prog.startswith("OK "):
                pp = parse_prog(prog.split()[2:])
                for n in evs:
                    nevents += 1
                    v = bpf_run(pp, n, aid)
                    exp = ALLOW if name_of.get(n) in set(got_names) else DENY
                    if v != exp:
                        report("counterexample", i, "the filter compiled from the emitted YAML answers %s to syscall %d (%s); expected %s"
                               % (v, n, name_of.get(n), exp), True, event=dict(nr=n, arch=aid))
                        break
            else:
                report("counterexample", i, "the emitted YAML loads but does not compile: " + prog[:200], True)
        if c.get("debug") and "all_syscalls:" not in res["stdout"]:
            report("correspondence", i, "debug YAML missing", False)
        if len(samples) < 3 and (bl or al) and c["kind"] in ("disjoint", "overlap", "junk"):
            samples.append(dict(arch=an, found=sorted(fnames)[:12], b=[v[:80] for v in c["bl"]], allow=[v[:80] for v in c["al"]], format=c["fmt"], emitted=got_names[:20]))
    # extracted compiler model and specification on the programs of the loaded YAML
    d = ctx.run_driver("\n".join(drv) + "\n")
    if d.returncode != 0:
        raise RuntimeError("driver failed: " + d.stderr[-1500:])
    cur_bad = {}
    for ln in d.stdout.splitlines():
        f = ln.split(" ", 4)
        if f[0] == "X":
            raise RuntimeError("driver reported: " + ln[:300])
        if f[0] == "C" and f[2] == "DIFF":
            report("correspondence", int(f[1]), "the program compiled from the emitted YAML differs from the model's compilation of profile_policy", False, detail=ln[:600])
        if f[0] == "E":
            nevents += 1
            if f[3] != "ok" and int(f[1]) not in cur_bad:
                cur_bad[int(f[1])] = ln
                i = int(f[1])
                report("counterexample", i, "the filter compiled from the emitted YAML disagrees with the specification on syscall %d: %s" % (drv_cases[i][int(f[2])], f[4]), True)
    # the Go source of one whole-table profile is type-checked and built against the repository
    built = None
    for i, res in enumerate(results):
        if res["case"]["kind"] == "whole_table" and res["case"]["fmt"] == "code" and res["rc"] == 0 and res["case"]["arch"] == "X86_64":
            md = os.path.join(env.root, "gomod")
            os.makedirs(md, exist_ok=True)
            shutil.copy(res["outfile"], os.path.join(md, "profile_linux_amd64.go"))
            with open(os.path.join(md, "go.mod"), "w") as f:
                f.write("module example/profile\n\ngo 1.18\n\nrequire github.com/elastic/go-seccomp-bpf v0.0.0\n\nreplace github.com/elastic/go-seccomp-bpf => %s\n" % REPO)
            shutil.copy(os.path.join(REPO, "go.sum"), md)
            rr = subprocess.run(["go", "vet", "./..."], cwd=md, env=dict(GOENV, GOOS="linux", GOARCH="amd64"), capture_output=True, text=True, timeout=300)
            built = rr.returncode == 0
            if not built:
                report("counterexample", i, "the emitted Go source does not build: " + (rr.stdout + rr.stderr)[-600:], True)
            break
    ctx.coverage.update(dict(
        evaluations=env.executions + nevents, profiler_runs=env.executions, events_run=nevents, distinct_nontrivial=len(nontrivial),
        rule="the real seccomp-profiler binary on synthetic listings built from a site model (call sites and raw SYSCALL / INT $0x80 sites, hex and decimal numbers, repeated sites, numbers without a name) for amd64 and 386 targets (arm: refused), x -b / -allow values (none, disjoint, overlapping, unknown names, names of other architectures, number-like names, repeated flags, separators , ; space tab newline CR CRLF VT FF and white space outside ASCII (U+0085, U+00A0, U+1680, U+2003, U+2028, U+3000), empty values; deny lists of exactly 15..65 names; a syscall found 255 / 256 / 257 / 512 / 1024 times) x stdout or -out onto a new file or onto an existing longer file x -format config|code (+ -d once per architecture); the whole table as found set once per architecture and format; stdout compared with the extracted model (profile_names_id) and with the property text evaluated in Python; YAML loaded through go-ucfg exactly like cmd/sandbox and compiled: instruction-exact against the extracted compile of profile_policy and evaluated on every number of the table (+3 without a name) against decide and against 'allow iff listed, else ERRNO|EPERM'; Go source parsed with go/parser (one built with go vet); non-trivial = distinct (arch, found set, flags, format) with a non-empty profile and at least one flag or the whole table",
        traces_validated_against_impl=ncorr, counterexamples=nbad, correspondence_differences=ndiff, go_source_built=built,
        input_distribution=dict(kinds=dist), samples=samples))
    ctx.assumptions += ["gopkg.in/yaml.v2 (emitter), go-ucfg (loader) and text/template are exercised, not modelled",
                        "the (number, name) pairs reported by the disassembly parser are table entries (C16)"]
    ctx.notes.append("proved: the set pipeline (for every iteration order of both Go maps) and the decision of the compiled profile policy, on the "
                     "regenerated tables and constants; exercised, not modelled: the YAML emitter (yaml.v2), the loader (go-ucfg) and text/template, "
                     "through which every name of the amd64 and 386 tables is passed on every run")
    ctx.violations.sort(key=lambda v: v[1])
    finish_with_proof_status(ctx, nbad, "C18 theorems over the set pipeline and the regenerated tables")


CHECKS = {"C17": check_C17, "C18": check_C18}
