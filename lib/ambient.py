"""Ambient inputs: what a process of the library can see besides the policy value (environment variables, the personality
the kernel reports through uname(2), files under /proc). The properties speak about policy values (and, for the loader, the
kernel's answers) only, so the observables must be the same under any such surroundings. This module builds hostile
surroundings for the runs of the implementation: an environment in which every variable the sources could possibly ask
for is set (names are read off the string literals of the CURRENT sources, plus the Go tool variables), and command
prefixes that change the reported machine and kernel release."""
import os
import re
import shutil

from common import REPO

_LIT = re.compile(r'"([A-Z][A-Z0-9_]{2,})"')
FIXED = {"GOARCH": "arm", "GOOS": "plan9", "GOHOSTARCH": "arm", "LANG": "tr_TR.UTF-8", "LC_ALL": "tr_TR.UTF-8",
         "TZ": "Pacific/Kiritimati", "HOSTTYPE": "arm", "MACHTYPE": "arm-unknown-linux-gnu", "SECCOMP": "1", "DEBUG": "1"}


def discover_names():
    """Upper-case string literals of the non-test sources: any of them may be the name of an environment variable."""
    names = set()
    for root, dirs, files in os.walk(REPO):
        dirs[:] = [d for d in dirs if not d.startswith(".") and d != "testdata"]
        for fn in files:
            if fn.endswith(".go") and not fn.endswith("_test.go"):
                try:
                    with open(os.path.join(root, fn), errors="replace") as f:
                        names.update(_LIT.findall(f.read()))
                except OSError:
                    pass
    return sorted(names)


def noise_env(base, value=None, names=None):
    """base plus every candidate variable; value(name) chooses the text for the discovered names (default "1")."""
    env = dict(base)
    for n in (names if names is not None else discover_names()):
        env[n] = value(n) if value else "1"
    for k, v in FIXED.items():
        env[k] = v
    return env


def personality_prefixes():
    """Command prefixes under which the same binary sees another machine name / kernel release from uname(2)."""
    out = []
    if shutil.which("setarch"):
        out.append(["setarch", "linux32", "--uname-2.6"])
        out.append(["setarch", "linux32"])
    return out


EXPECTED_NATIVE = {"386": "I386", "amd64": "X86_64", "arm": "ARM", "arm64": "AARCH64"}
