"""Seeded generators for builder programs, policies and events (token lines, see coq/extract/driver.ml)."""
import random

CONDS = ["eq", "ne", "gt", "lt", "ge", "le", "set", "nset"]
OPS = ["Eq", "Ne", "Gt", "Lt", "Ge", "Le", "Set", "NSet"]
M32 = (1 << 32) - 1
M64 = (1 << 64) - 1

ACTIONS = dict(kill_thread=0, kill_process=0x80000000, trap=0x30000, errno=0x50000, trace=0x7ff00000,
               log=0x7ffc0000, allow=0x7fff0000)


def hexs(s):
    return "x" + s.encode("utf-8", "surrogateescape").hex()


def parse_header(text):
    """Parse the K and A lines the harness prints. Returns (consts, arches)."""
    consts, arches = None, {}
    for line in text.splitlines():
        f = line.split()
        if not f:
            continue
        if f[0] == "K":
            consts = dict(errno=int(f[1]), eperm=int(f[2]), enosys=int(f[3]), x32mask=int(f[4]), x86id=int(f[5]),
                          named=[int(x) for x in f[7:7 + int(f[6])]])
        elif f[0] == "A":
            n = int(f[4])
            tbl = []
            for i in range(n):
                tbl.append((int(f[5 + 2 * i]), bytes.fromhex(f[6 + 2 * i][1:]).decode()))
            arches[f[1]] = dict(name=f[1], id=int(f[2]), mask=int(f[3]), table=tbl)
    return consts, arches


# ------------------------------------------------------------------------------------------------ builder programs
class BuilderGen:
    """Programs for the public builder. Labels are the integers NewLabel returns: 2, 3, ..."""

    DISTS = [0, 1, 2, 3, 5, 17, 100, 200, 253, 254, 255, 256, 257, 258, 300, 509, 510, 511, 512, 600, 800]

    def __init__(self, rng):
        self.rng = rng

    def program(self, kind=None):
        rng = self.rng
        kind = kind or rng.choice(["small", "small", "mid", "mid", "long", "long", "boundary", "boundary", "malformed", "dense"])
        if kind == "small":
            n = rng.randint(1, 12)
        elif kind == "mid":
            n = rng.randint(10, 120)
        elif kind == "dense":
            n = rng.randint(200, 420)
        elif kind == "long":
            n = rng.randint(250, 1100)
        elif kind == "boundary":
            n = rng.choice([255, 256, 257, 258, 259, 300, 511, 512, 513, 520]) + rng.randint(0, 6)
        else:
            n = rng.randint(2, 300)
        # skeleton of real instructions: kinds at positions 0..n-1 ; position n is "the end"
        kinds = []
        pjump = {"small": 0.45, "mid": 0.3, "long": 0.08, "boundary": 0.05, "malformed": 0.3, "dense": 0.5}[kind]
        for i in range(n):
            r = rng.random()
            if i == n - 1:
                kinds.append("ret")
            elif r < pjump:
                kinds.append(rng.choice(["jif", "jif", "jt", "jt", "jmp"] if rng.random() < 0.9 else ["jmp"]))
            elif r < pjump + 0.08:
                kinds.append("ret")
            else:
                kinds.append("ld")
        if kind == "boundary":
            # force a few jumps near the start so that the boundary distances are exercised
            for i in range(min(n - 1, rng.randint(1, 4))):
                kinds[i] = rng.choice(["jif", "jt"])
        # choose targets
        labels_at = {}   # position -> list of labels set in front of that position
        nlabels = 0
        jumps = {}       # position -> tuple of labels
        next_label = 2
        plan = []        # (pos, kind, targets as positions)
        for i, kd in enumerate(kinds):
            if kd in ("jif", "jt", "jmp"):
                def pick(minpos):
                    if kind == "boundary" or rng.random() < 0.5:
                        d = rng.choice(self.DISTS)
                        t = i + 1 + d
                        if t > n:
                            t = rng.randint(minpos, n)
                        return max(t, minpos)
                    if rng.random() < 0.3:
                        return n if rng.random() < 0.3 else rng.randint(minpos, n)
                    return max(minpos, min(n, i + 1 + rng.randint(0, 12)))
                if kd == "jif":
                    t1, t2 = pick(i + 1), pick(i + 1)
                    if t1 == i + 1 and t2 == i + 1 and kind != "malformed":
                        t1 = min(n, i + 2) if i + 2 <= n else i + 1
                    plan.append((i, kd, (t1, t2)))
                elif kd == "jt":
                    t1 = pick(i + 2 if i + 2 <= n else i + 1)
                    plan.append((i, kd, (t1,)))
                else:
                    plan.append((i, kd, (pick(i + 1),)))
        # allocate labels: all user labels first (NewLabel calls up front), JmpIfTrue allocates its own later
        ops = []
        pos_label = {}
        share = rng.random() < 0.5   # targets at the same position share one label
        user_labels = []
        tlabels = {}
        for (i, kd, ts) in plan:
            ls = []
            for t in ts:
                if share and t in pos_label:
                    ls.append(pos_label[t])
                else:
                    l = next_label
                    next_label += 1
                    ops.append("N")
                    pos_label.setdefault(t, l)
                    labels_at.setdefault(t, []).append(l)
                    ls.append(l)
            tlabels[i] = ls
        # malformed variants
        mal = None
        if kind == "malformed" and plan:
            mal = rng.choice(["unset", "twice", "backward", "useless", "foreign"])
        unset_label = None
        if mal == "unset":
            cand = [l for ls in labels_at.values() for l in ls]
            unset_label = rng.choice(cand)
        body = []
        twice_done = False
        for i, kd in enumerate(kinds + ["end"]):
            for l in labels_at.get(i, []):
                if l == unset_label:
                    continue
                body.append("S %d" % l)
                if mal == "twice" and not twice_done and rng.random() < 0.3:
                    # the same label again, a bit later (added below after the instruction)
                    twice_done = l
            if kd == "end":
                break
            if kd == "ld":
                body.append("%s %d" % (rng.choice("HL"), rng.choice([0, 1, 2, 3, 4, 5, 5, 5]) if rng.random() < 0.97 else rng.choice([6, 7, 100, (1 << 29), M32])))
            elif kd == "ret":
                body.append("R %d" % rng.choice([0, 0x7fff0000, 0x50000, 0x30000, 0x80000000, 0x50005, i, 0x7ffc0000]))
            elif kd == "jif":
                c = rng.choice(CONDS)
                k = rng.choice([0, 1, 2, 3, 3, 7, M32, 1 << 31])
                l1, l2 = tlabels[i]
                if mal == "useless" and rng.random() < 0.5:
                    body.append("N")
                    lab = next_label
                    next_label += 1
                    body.append("J %s %d %d %d" % (c, k, lab, lab))
                    body.append("S %d" % lab)
                elif mal == "backward" and rng.random() < 0.3 and i > 0:
                    # use a label that was set already
                    earlier = [l for p, ls in labels_at.items() if p <= i for l in ls if l != unset_label]
                    lb = rng.choice(earlier) if earlier else l1
                    body.append("J %s %d %d %d" % (c, k, lb, l2))
                elif mal == "foreign" and rng.random() < 0.2:
                    body.append("J %s %d %d %d" % (c, k, l1, 0))
                else:
                    body.append("J %s %d %d %d" % (c, k, l1, l2))
            elif kd == "jt":
                c = rng.choice(CONDS)
                k = rng.choice([0, 1, 2, 3, 3, 7, M32, 1 << 31])
                body.append("T %s %d %d" % (c, k, tlabels[i][0]))
                next_label += 1
            elif kd == "jmp":
                body.append("G %d" % tlabels[i][0])
            if twice_done and twice_done is not True and rng.random() < 0.5:
                body.append("S %d" % twice_done)
                twice_done = True
        ops += body
        toks = " ".join(ops).split()
        nops = sum(1 for t in toks if t in ("N", "J", "T", "G", "S", "R", "H", "L"))
        return kind + ("/" + mal if mal else ""), nops, " ".join(toks)

    def twoway(self):
        """One two-way jump whose branches are both far: the true branch out of reach (a bridge is needed), the false branch
        around the reach limit, with 0..2 later long jumps whose bridges shift the distances in between. The instruction
        in front of each destination is a return with a value of its own, so landing one instruction off shows."""
        rng = self.rng
        d2 = rng.randint(249, 259)
        d1 = rng.choice([256, 257, 258, 259, 300, 400, 509, 510, 511, 512, 600])
        if rng.random() < 0.3:
            d1, d2 = d2, d1
        while abs(d1 - d2) < 3:
            d1 += 3
        m = rng.randint(0, 2)
        tA, tB = 2 + d1, 2 + d2
        later = []
        for j in range(m):
            pj = rng.randint(2, min(tA, tB) - 6)
            tj = pj + 1 + rng.choice([256, 257, 300, 511, 512])
            if any(abs(pj - q) < 2 for q, _ in later) or any(abs(tj - t) < 3 for t in (tA, tB)) or any(abs(tj - t) < 3 for _, t in later):
                continue
            later.append((pj, tj))
        n = max([tA, tB] + [t for _, t in later]) + 3
        at = {}          # position -> instruction text
        sets = {}        # position -> labels set in front of it
        uniq = [0x50000 + 11, 0x50000 + 12, 0x50000 + 13, 0x50000 + 14, 0x30000, 0x7ffc0000]
        for (t, lab, u1, u2) in ((tA, 2, uniq[0], uniq[1]), (tB, 3, uniq[2], uniq[3])):
            at[t - 1] = "R %d" % u1
            at[t] = "H %d" % rng.randint(0, 5)
            at[t + 1] = "R %d" % u2
            sets.setdefault(t, []).append(lab)
        if rng.random() < 0.5:
            # the far destination IS a return, and a return of the same action class (same bits under 0x7fff0000, other data
            # bits or the kill_process bit) stands directly behind the jump
            x, y = rng.choice([(0, 0x80000000), (0x80000000, 0), (0x50001, 0x50002), (0x50000 | 38, 0x50000 | 1), (0x7ff00001, 0x7ff00002),
                               (0x30000, 0x30005), (0x7fff0000, 0x7fff0001)])
            at[2] = "R %d" % x
            t_far = tA if tA > tB else tB
            at[t_far] = "R %d" % y
        for j, (pj, tj) in enumerate(later):
            at.setdefault(pj, "T %s %d %d" % (rng.choice(CONDS), rng.choice([0, 1, 2, 3, 7]), 4 + j))
            if not at[pj].startswith("T "):
                later[j] = None
                continue
            at.setdefault(tj, "L %d" % rng.randint(0, 5))
            sets.setdefault(tj, []).append(4 + j)
        extra = 0
        if rng.random() < 0.3:
            # the far destination is an unconditional jump that skips over two returns of their own
            t_far = tA if tA > tB else tB
            jl = 4 + len(later)
            extra = 1
            at[t_far] = "G %d" % jl
            at[t_far + 1] = "R %d" % (0x50000 + 31)
            at[t_far + 2] = "R %d" % (0x50000 + 32)
            at.setdefault(t_far + 3, "L %d" % rng.randint(0, 5))
            sets.setdefault(t_far + 3, []).append(jl)
            n = max(n, t_far + 6)
        ops = ["N"] * (2 + len(later) + extra) + ["L 0", "J %s %d 2 3" % (rng.choice(CONDS), rng.choice([0, 1, 2, 3, 7]))]
        for p in range(2, n):
            for lab in sets.get(p, []):
                ops.append("S %d" % lab)
            ops.append(at.get(p, "L %d" % rng.randint(0, 5)))
        for j, lt in enumerate(later):
            if lt is None:
                ops.append("S %d" % (4 + j))     # a label nobody jumps to, set at the end
        ops.append("R %d" % uniq[5])
        toks = " ".join(ops).split()
        nops = sum(1 for t in toks if t in ("N", "J", "T", "G", "S", "R", "H", "L"))
        return "twoway", nops, " ".join(toks)

    def shared_return(self):
        """Jumps A < C < B: A and B have a long true branch to the SAME label (in front of a return), C between them has a long
        true branch to a label in front of a load (its bridge is a long jump); sometimes a second C. Early returns inserted
        for B may be reused by A only if nothing moved in between."""
        rng = self.rng
        pa = 1
        pc = rng.randint(5, 160)
        pb = rng.randint(pc + 3, pc + rng.choice([20, 60, 100, 200]))
        tx = pc + 1 + rng.choice([256, 257, 258, 300, 400])
        tr = max(pb + 1 + rng.choice([256, 257, 300]), tx + 4)
        jumps = {pa: 2, pc: 3, pb: 2}              # position -> label
        labels_at = {tr: [2], tx: [3]}
        nlab = 2
        if rng.random() < 0.4:
            pc2 = rng.randint(pa + 1, pb - 1)
            if pc2 not in jumps:
                nlab = 3
                jumps[pc2] = 4
                tx2 = max(pc2 + 1 + rng.choice([256, 300]), 0)
                while tx2 in (tr, tx, tr - 1, tx - 1, tr + 1, tx + 1):
                    tx2 += 1
                labels_at.setdefault(tx2, []).append(4)
        n = max(labels_at) + 3
        at = {tr - 1: "R %d" % (0x50000 + 21), tr: "R %d" % 0x7fff0000, tx - 1: "R %d" % (0x50000 + 22)}
        if rng.random() < 0.5 and all(abs(tx + d - t) > 1 for d in (0, 1, 2, 3) for t in labels_at if t != tx):
            # C's far destination is an unconditional jump over two returns of their own
            nlab += 1
            jl = nlab + 1
            at[tx] = "G %d" % jl
            at[tx + 1] = "R %d" % (0x50000 + 23)
            at[tx + 2] = "R %d" % (0x50000 + 24)
            labels_at.setdefault(tx + 3, []).append(jl)
            n = max(n, tx + 6)
        ops = ["N"] * nlab + ["L 0"]
        for p in range(1, n):
            for lab in labels_at.get(p, []):
                ops.append("S %d" % lab)
            if p in jumps:
                ops.append("T %s %d %d" % (rng.choice(CONDS), rng.choice([0, 1, 2, 3, 7]), jumps[p]))
            else:
                ops.append(at.get(p, "%s %d" % (rng.choice("HL"), rng.randint(0, 5))))
        ops.append("R %d" % 0x30000)
        toks = " ".join(ops).split()
        nops = sum(1 for t in toks if t in ("N", "J", "T", "G", "S", "R", "H", "L"))
        return "shared_return", nops, " ".join(toks)

    def events(self, count):
        rng = self.rng
        evs = []
        small = [0, 1, 2, 3, 7, M32, 1 << 31]
        for _ in range(count):
            args = []
            for _i in range(6):
                hi = rng.choice(small) if rng.random() < 0.85 else rng.getrandbits(32)
                lo = rng.choice(small) if rng.random() < 0.85 else rng.getrandbits(32)
                args.append((hi << 32) | lo)
            evs.append("V %d %d %d %s" % (rng.choice(small), rng.choice(small), rng.getrandbits(64), " ".join(map(str, args))))
        return evs


# ------------------------------------------------------------------------------------------------ policies
class PolicyGen:
    TABLE_ARCHES = ["X86_64", "I386", "ARM", "AARCH64"]

    def __init__(self, rng, consts, arches):
        self.rng = rng
        self.consts = consts
        self.arches = arches

    def operand(self):
        rng = self.rng
        r = rng.random()
        if r < 0.35:
            return rng.choice([0, 1, 2, 5, 0x7fffffff, 0x80000000, M32, 1 << 32, (1 << 32) + 1, (5 << 32) | 5,
                               (1 << 63), (1 << 63) - 1, M64, M64 - 1, 0x0102030405060708])
        if r < 0.55:
            return rng.getrandbits(32)
        if r < 0.7:
            return rng.getrandbits(32) << 32
        if r < 0.8:
            return rng.randint(0, 400)    # looks like a syscall number
        return rng.getrandbits(64)

    def action(self, named_only=False):
        rng = self.rng
        named = self.consts["named"]
        if named_only or rng.random() < 0.9:
            return rng.choice(named)
        return rng.choice([0x50000 | rng.randint(1, 4095), 0x7fc00000, rng.getrandbits(32), 0x7ff00000 | rng.randint(0, 0xffff)])

    def cond(self, bad=None):
        rng = self.rng
        arg = rng.randint(0, 5)
        op = rng.choice(OPS)
        if bad == "argidx":
            # just above the range, far above it, and values that equal a valid index modulo 2^29 / 2^30 / 2^31 (the
            # load offset 16 + 8*index is computed in 32 bits)
            arg = rng.choice([6, 6, 6, 7, 8, 100, M32, 1 << 31, (1 << 29) + rng.randint(0, 5), (1 << 30) + rng.randint(0, 5),
                              (3 << 29) + rng.randint(0, 5), (1 << 31) + rng.randint(0, 5), (7 << 29) + rng.randint(0, 5), M32 - 1,
                              # a valid index in the low byte / low 16 bits only
                              256 + rng.randint(0, 5), 512 + rng.randint(0, 5), 0xFFFFFF00 + rng.randint(0, 5), 65536 + rng.randint(0, 5),
                              0x7FFFFF00 + rng.randint(0, 5), 128 + rng.randint(0, 5)])
        if bad in ("op", "both"):
            op = "Other%d" % rng.randint(0, 5)
        if bad == "both":
            arg = rng.choice([6, 7, 100, M32])
        return (arg, op, self.operand())

    def policy(self, archname=None, kind=None, defect=None):
        """Returns (description dict, token string without the leading 'P id le arch')."""
        rng = self.rng
        archname = archname or rng.choice(self.TABLE_ARCHES)
        ai = self.arches[archname]
        names_all = [s for (_, s) in ai["table"]]
        kind = kind or rng.choice(["names", "names", "names_long", "cond", "cond", "mixed", "mixed", "mixed_long", "condlong", "degenerate", "whole_table"])
        groups = []
        if kind == "names":
            ng = rng.randint(1, 6)
            many = rng.random() < 0.08
            if many:
                ng = rng.choice([31, 32, 33, 40, 64, 65, 100, rng.randint(30, 130)])     # policies of very many small groups
            for _ in range(ng):
                k = rng.choice([0, 1, 1, 2, 3]) if many else rng.choice([0, 1, 1, 2, 3, 5, 8, 20])
                groups.append(dict(action=self.action(), names=rng.sample(names_all, min(k, len(names_all))), nwc=[]))
        elif kind == "single_cond":
            # C02: one group, one conditional entry, one condition
            groups.append(dict(action=self.action(), names=[], nwc=[dict(name=rng.choice(names_all), conds=[self.cond()])]))
        elif kind == "names_long":
            ng = rng.randint(1, 4)
            tot = rng.choice([245, 246, 247, 248, 249, 250, 251, 252, 253, 254, 255, 256, 257, 258, 259, 260, 300]) if rng.random() < 0.7 else rng.randint(100, len(names_all))
            tot = min(tot, len(names_all))
            pool = rng.sample(names_all, tot)
            cuts = sorted(rng.randint(0, tot) for _ in range(ng - 1))
            prev = 0
            for c in cuts + [tot]:
                groups.append(dict(action=self.action(), names=pool[prev:c], nwc=[]))
                prev = c
        elif kind == "whole_table":
            groups.append(dict(action=self.action(), names=list(names_all), nwc=[]))
            if rng.random() < 0.5:
                groups.append(dict(action=self.action(), names=rng.sample(names_all, 3), nwc=[]))
        elif kind == "value_list":
            # one syscall allowed for a LIST OF VALUES of one argument: 4..12 single-Equal alternatives whose values differ in
            # their high words, their low words or both
            nm = rng.choice(names_all)
            arg = rng.randint(0, 5)
            pool = [3, 4, 5, M64, M32, 1 << 32, (1 << 32) | 3, (3 << 32) | 3, (3 << 32) | 4, 0, 1 << 63, (M32 << 32) | 5, 0x80000000, (1 << 32) - 2]
            vals = rng.sample(pool, rng.randint(4, 12))
            if rng.random() < 0.5:
                vals[0] = rng.choice([3, 4, 5, 0])          # a small value first
            op = "Eq" if rng.random() < 0.8 else rng.choice(OPS)
            nwc = [dict(name=nm, conds=[(arg, op, v)]) for v in vals]
            if rng.random() < 0.3:
                nm2 = rng.choice(names_all)
                nwc += [dict(name=nm2, conds=[(arg, "Eq", v)]) for v in rng.sample(pool, 4)]
            groups.append(dict(action=self.action(), names=rng.sample(names_all, rng.randint(0, 2)), nwc=nwc))
        elif kind == "pair_cond":
            # two (sometimes three) single-condition alternatives of ONE syscall, adjacent, same argument, same operation,
            # related operands (one bit apart, disjoint masks, sub-mask, neighbours)
            nm = rng.choice(names_all)
            arg = rng.randint(0, 5)
            op = rng.choice(OPS)
            v1 = self.operand()
            rel = [v1 ^ (1 << rng.randint(0, 63)), (v1 << 1) & M64, v1 >> 1, ~v1 & M64, v1 & rng.getrandbits(64), v1 | rng.getrandbits(64),
                   (v1 + 1) & M64, (v1 - 1) & M64, v1 ^ (1 << 32), ((v1 & M32) << 32) | (v1 >> 32), 1 << rng.randint(0, 63)]
            nwc = [dict(name=nm, conds=[(arg, op, v1)]), dict(name=nm, conds=[(arg, op if rng.random() < 0.8 else rng.choice(OPS), rng.choice(rel))])]
            if rng.random() < 0.3:
                nwc.append(dict(name=nm, conds=[(arg, op, rng.choice(rel))]))
            groups.append(dict(action=self.action(), names=[], nwc=nwc))
        elif kind == "altmany" and rng.random() < 0.35:
            # one group with plain names AND one syscall whose alternatives (12..20 lists of six conditions) span more than
            # 255 instructions, so that early returns are shared between far jumps with other long jumps in between
            g_names = rng.sample(names_all, rng.randint(1, 4))
            nm = rng.choice([n for n in names_all if n not in g_names])
            nwc = [dict(name=nm, conds=[(a, rng.choice(OPS), self.operand()) for a in range(6)]) for _ in range(rng.randint(12, 20))]
            if rng.random() < 0.5:
                nm2 = rng.choice(names_all)
                nwc += [dict(name=nm2, conds=[self.cond() for _ in range(rng.randint(1, 6))]) for _ in range(rng.randint(1, 6))]
            groups.append(dict(action=self.action(), names=g_names, nwc=nwc))
            if rng.random() < 0.5:
                groups.append(dict(action=self.action(), names=rng.sample(names_all, 2), nwc=[]))
        elif kind == "altmany":
            # conditional syscalls with very many alternatives each (one or two conditions per alternative): blocks of
            # 60..130 alternatives straddle the reach of an 8-bit jump offset before and after bridges are inserted
            for _ in range(rng.randint(1, 2)):
                nwc = []
                for nm in rng.sample(names_all, rng.randint(2, 3)):
                    na = rng.choice([40, 60, 61, 62, 63, 64, 65, 66, 84, 85, 86, 100, 127, 128, 130])
                    arg = rng.randint(0, 5)
                    base = rng.choice([0, 1, 1000, 1 << 32, (1 << 63)])
                    for a in range(na):
                        conds = [(arg, rng.choice(["Eq", "Eq", "Eq", "Set", "Gt"]), base + 3 * a + 1)]
                        if rng.random() < 0.15:
                            conds.append(self.cond())
                        nwc.append(dict(name=nm, conds=conds))
                groups.append(dict(action=self.action(), names=rng.sample(names_all, rng.randint(0, 3)), nwc=nwc))
        elif kind == "degenerate":
            ng = rng.randint(1, 4)
            for _ in range(ng):
                r = rng.random()
                if r < 0.5:
                    groups.append(dict(action=self.action(), names=[], nwc=[]))
                elif r < 0.8:
                    groups.append(dict(action=self.action(), names=[rng.choice(names_all)], nwc=[]))
                else:
                    groups.append(dict(action=self.action(), names=[], nwc=[dict(name=rng.choice(names_all), conds=[self.cond()])]))
        else:
            ng = rng.randint(1, 4)
            many = kind in ("cond", "mixed") and rng.random() < 0.05
            if many:
                ng = rng.choice([32, 33, 40, 64, rng.randint(30, 70)])
            for _ in range(ng):
                if many:
                    nn, nw = rng.randint(0, 2), rng.randint(0, 1)
                elif kind == "cond":
                    nn, nw = 0, rng.randint(1, 4)
                elif kind == "condlong":
                    nn, nw = rng.randint(0, 2), rng.randint(1, 3)
                elif kind == "mixed_long":
                    nn, nw = rng.randint(30, 200), rng.randint(1, 8)
                else:
                    nn, nw = rng.randint(0, 6), rng.randint(0, 5)
                pool = rng.sample(names_all, min(len(names_all), nn + nw))
                if pool and rng.random() < 0.3:
                    # the syscall with the smallest number of the table (0 on most: the zero value of a failed lookup)
                    zero = min(ai["table"])[1]
                    if zero not in pool:
                        pool[rng.randrange(len(pool))] = zero
                names = pool[:nn]
                cpool = pool[nn:] or [rng.choice(names_all)]
                nwc = []
                for _i in range(nw):
                    nm = rng.choice(cpool)       # repeated names become OR lists
                    if kind == "condlong":
                        nc = rng.choice([1, 2, 6, 20, 40, 60, 70, 85])
                    else:
                        nc = rng.choice([1, 1, 2, 2, 3, 4, 6, 8])
                    conds = [self.cond() for _j in range(nc)]
                    if rng.random() < 0.3 and nc >= 2:
                        conds[1] = (conds[0][0], conds[1][1], conds[1][2])    # same argument twice
                    if rng.random() < 0.2 and nc >= 2:
                        # the very same condition twice in one list (first and last, or anywhere)
                        j = rng.randrange(nc - 1)
                        conds[rng.choice([nc - 1, nc - 1, rng.randrange(j + 1, nc)])] = conds[j]
                    nwc.append(dict(name=nm, conds=conds))
                if nwc and rng.random() < 0.35:
                    # another alternative for a syscall that has one already, RELATED to it: a sub-list, a longer list, the
                    # same list again, the same conditions in another order, one operand changed - before or after it
                    base = rng.choice(nwc)
                    bc = list(base["conds"])
                    how = rng.choice(["subset", "subset", "superset", "same", "permuted", "one_changed", "shifted", "shifted", "extended"])
                    if how == "extended":
                        # the same list with more conditions behind it, placed right behind it (a longer window of the same array)
                        rel = bc + [self.cond() for _j in range(rng.randint(1, 3))]
                        nwc.insert(nwc.index(base) + 1, dict(name=base["name"], conds=rel))
                        groups.append(dict(action=self.action(), names=names, nwc=nwc))
                        continue
                    if how == "shifted" and len(bc) >= 2:
                        # a window shifted by one or two: the tail of the list followed by new conditions, placed right behind
                        # it (a caller may have carved both out of one array, overlapping) - arguments not in ascending order
                        k = rng.randint(1, min(2, len(bc) - 1))
                        rel = bc[k:] + [(rng.randint(0, max(0, min(c[0] for c in bc if c[0] <= 5) if any(c[0] <= 5 for c in bc) else 0)), rng.choice(OPS), self.operand()) for _j in range(k)]
                        nwc.insert(nwc.index(base) + 1, dict(name=base["name"], conds=rel))
                        groups.append(dict(action=self.action(), names=names, nwc=nwc))
                        continue
                    if how == "shifted":
                        how = "same"
                    if how == "subset":
                        keep = rng.randint(1, max(1, len(bc) - 1))
                        rel = [bc[j] for j in sorted(rng.sample(range(len(bc)), min(keep, len(bc))))]
                    elif how == "superset":
                        rel = bc + [self.cond() for _j in range(rng.randint(1, 2))]
                        rng.shuffle(rel)
                    elif how == "permuted":
                        rel = bc[:]
                        rng.shuffle(rel)
                    elif how == "one_changed":
                        rel = bc[:]
                        j = rng.randrange(len(rel))
                        rel[j] = (rel[j][0], rng.choice(OPS), rel[j][2]) if rng.random() < 0.5 else (rel[j][0], rel[j][1], self.operand())
                    else:
                        rel = bc[:]
                    at = nwc.index(base)
                    nwc.insert(rng.choice([at, at + 1, len(nwc)]), dict(name=base["name"], conds=rel))
                groups.append(dict(action=self.action(), names=names, nwc=nwc))
            if rng.random() < 0.15:
                # a group without any name between / in front of / behind the others (it emits no code)
                groups.insert(rng.randint(0, len(groups)), dict(action=self.action(), names=[], nwc=[]))
            if rng.random() < 0.4 and len(groups) >= 2:
                # same syscall in several groups
                g0 = groups[0]
                src = g0["names"] or [w["name"] for w in g0["nwc"]]
                if src:
                    nm = rng.choice(src)
                    tgt = groups[-1]
                    if nm not in tgt["names"] and all(w["name"] != nm for w in tgt["nwc"]):
                        if rng.random() < 0.5:
                            tgt["names"].append(nm)
                        else:
                            tgt["nwc"].append(dict(name=nm, conds=[self.cond()]))
        default = self.action(named_only=True)
        pol = dict(default=default, groups=groups, arch=archname, kind=kind)
        if defect:
            self.inject(pol, defect, names_all)
        return pol

    def edited(self, pol):
        """The same policy after an edit of its exported fields that keeps the default action and the number of groups."""
        import copy
        rng = self.rng
        p2 = copy.deepcopy(pol)
        ai = self.arches[pol["arch"]]
        names_all = [s for (_, s) in ai["table"]]
        g = rng.choice(p2["groups"])
        used = set(g["names"]) | set(w["name"] for w in g["nwc"])
        free = [n for n in names_all if n not in used]
        how = rng.choice(["action", "add_name", "drop_name", "operand", "add_cond_entry", "swap_groups", "operand_half", "operand_half", "cond_op", "rename"])
        if how in ("operand_half", "cond_op", "rename") and not any(gg["nwc"] for gg in p2["groups"]) and how != "rename":
            how = "action"
        if how in ("operand_half", "cond_op"):
            # the smallest possible edit of a condition: only the high half, only the low half or a single bit of its operand
            # changes, or only its operation - everything else (shape, names, counts, the other half) stays
            g = rng.choice([gg for gg in p2["groups"] if gg["nwc"]])
            w = rng.choice(g["nwc"])
            j = rng.randrange(len(w["conds"]))
            (a, o, v) = w["conds"][j]
            w["conds"] = list(w["conds"])
            if how == "cond_op":
                w["conds"][j] = (a, rng.choice([x for x in OPS if x != o]), v)
            else:
                v2 = rng.choice([v ^ (1 << 32), v ^ (1 << 63), (v & M32) | (rng.getrandbits(32) << 32), ((v >> 32) << 32) | rng.getrandbits(32), v ^ 1,
                                 (v + (1 << 32)) & M64, v ^ (1 << rng.randint(32, 63))])
                w["conds"][j] = (a, o, v2 if v2 != v else v ^ (1 << 40))
        elif how == "rename" and (g["names"] or g["nwc"]) and free:
            # one name replaced by another (same counts everywhere)
            if g["names"] and (not g["nwc"] or rng.random() < 0.5):
                g["names"][rng.randrange(len(g["names"]))] = rng.choice(free)
            else:
                old = rng.choice(g["nwc"])["name"]
                new = rng.choice(free)
                for w in g["nwc"]:
                    if w["name"] == old:
                        w["name"] = new
        elif how == "action":
            g["action"] = rng.choice([a for a in self.consts["named"] if a != g["action"]])
        elif how == "add_name" and free:
            g["names"].append(rng.choice(free))
        elif how == "drop_name" and g["names"]:
            g["names"].pop(rng.randrange(len(g["names"])))
        elif how == "operand" and g["nwc"]:
            w = rng.choice(g["nwc"])
            j = rng.randrange(len(w["conds"]))
            w["conds"] = list(w["conds"])
            w["conds"][j] = (w["conds"][j][0], rng.choice(OPS), self.operand())
        elif how == "add_cond_entry" and free:
            g["nwc"].append(dict(name=rng.choice(free), conds=[self.cond()]))
        elif how == "swap_groups" and len(p2["groups"]) >= 2:
            p2["groups"].reverse()
        else:
            g["action"] = rng.choice([a for a in self.consts["named"] if a != g["action"]])
        p2["kind"] = pol["kind"] + "/edited-in-place"
        return p2

    def siblings(self, pol):
        """Two fresh policies that differ from [pol] and from each other only in the (unnamed) action of one group."""
        import copy
        rng = self.rng
        i = rng.randrange(len(pol["groups"]))
        acts = rng.sample([0x50000 | 13, 0x50000 | 38, 0x7ff00000 | 7, 0x7ff00000 | 1, 0x30000 | 5, 0x50000 | 4095, 0x7ffc0000 | 3], 2)
        out = []
        for a in acts:
            p2 = copy.deepcopy(pol)
            p2["groups"][i]["action"] = a
            p2["kind"] = pol["kind"] + "/sibling"
            out.append(p2)
        return out

    DEFECTS = ["default_unnamed", "no_groups", "unknown_name", "unknown_cond_name", "dup_name", "cond_uncond",
               "argidx", "badop", "empty_conds", "argidx_and_badop", "bad_tail_of_extended"]

    def bpos(self, n, lo=0):
        """a position in lo..n: half of the time one of the boundary positions (start, end, powers of two and their neighbours)"""
        rng = self.rng
        cand = [x for x in (0, 1, n, n - 1, 5, 6, 7, 8, 15, 16, 17, 31, 32, 33, 63, 64, 65, 127, 128, 129, 255, 256, 257) if lo <= x <= n]
        if cand and rng.random() < 0.5:
            return rng.choice(cand)
        return rng.randint(lo, n) if n >= lo else lo

    def inject(self, pol, defect, names_all):
        rng = self.rng
        pol["defect"] = defect
        groups = pol["groups"]
        if defect == "default_unnamed":
            pol["default"] = rng.choice([0x7fc00000, 0x50001, 1, 0x7fff0001, rng.getrandbits(32) | 1])
            return
        if defect == "no_groups":
            pol["groups"] = []
            return
        if not groups:
            groups.append(dict(action=self.action(), names=[], nwc=[]))
        g = rng.choice(groups)
        bogus = rng.choice(["", "nosuchcall", "READ", "read ", "exit\x00", "open\n", "\xff\xfe", "%d%s", "x32_read", "getpid2"])
        # names that are syscalls of OTHER architectures only
        here = set(names_all)
        foreign = sorted(set(s2 for a2 in self.arches.values() for (_, s2) in a2["table"]) - here)
        if foreign and rng.random() < 0.35:
            bogus = rng.choice(foreign)
        if defect == "unknown_name":
            if rng.random() < 0.3:
                zero = min(self.arches[pol["arch"]]["table"])[1]
                if zero not in g["names"] and all(w["name"] != zero for w in g["nwc"]):
                    g["names"].insert(rng.randint(0, len(g["names"])), zero)
            g["names"].insert(rng.randint(0, len(g["names"])), bogus)
        elif defect == "unknown_cond_name":
            if rng.random() < 0.4:
                # next to a conditional entry for the syscall numbered 0 (what a failed lookup yields)
                zero = min(self.arches[pol["arch"]]["table"])[1]
                if zero not in g["names"] and all(w["name"] != zero for w in g["nwc"]):
                    g["nwc"].insert(rng.randint(0, len(g["nwc"])), dict(name=zero, conds=[self.cond()]))
            g["nwc"].insert(rng.randint(0, len(g["nwc"])), dict(name=bogus, conds=[self.cond()]))
        elif defect == "dup_name":
            if not g["names"]:
                g["names"].append(rng.choice(names_all))
            if len(g["names"]) < 70 and rng.random() < 0.25:
                # a long list: the duplicated name sits at a boundary position of it
                extra = [n for n in names_all if n not in g["names"] and all(w["name"] != n for w in g["nwc"])]
                g["names"] += rng.sample(extra, min(len(extra), rng.choice([60, 64, 65, 70, 130, 260]) - len(g["names"])))
            L = len(g["names"])
            nm = g["names"][rng.choice([i for i in (63, 64, 65, 127, 128, 255, 256, L - 1, 0) if i < L]) if L > 64 and rng.random() < 0.7 else self.bpos(L - 1)]
            g["names"].insert(rng.choice([len(g["names"]), self.bpos(len(g["names"]))]), nm)
        elif defect == "cond_uncond":
            if not g["names"]:
                cand = [n for n in names_all if all(w["name"] != n for w in g["nwc"])]
                g["names"].append(rng.choice(cand))
            if len(g["names"]) < 70 and rng.random() < 0.25:
                extra = [n for n in names_all if n not in g["names"] and all(w["name"] != n for w in g["nwc"])]
                g["names"] += rng.sample(extra, min(len(extra), rng.choice([60, 64, 65, 70, 130, 260]) - len(g["names"])))
            L = len(g["names"])
            nm = g["names"][rng.choice([i for i in (63, 64, 65, 127, 128, 255, 256, L - 1, 0) if i < L]) if L > 64 and rng.random() < 0.7 else self.bpos(L - 1)]
            g["nwc"].insert(self.bpos(len(g["nwc"])), dict(name=nm, conds=[self.cond()]))
        elif defect in ("argidx", "badop", "argidx_and_badop"):
            if not g["nwc"]:
                cand = [n for n in names_all if n not in g["names"]]
                g["nwc"].append(dict(name=rng.choice(cand), conds=[self.cond()]))
            w = g["nwc"][self.bpos(len(g["nwc"]) - 1)]
            w["conds"] = list(w["conds"])
            if rng.random() < 0.3:
                # a long list: the defective condition sits behind several valid ones
                w["conds"] += [self.cond() for _ in range(rng.choice([5, 6, 7, 8, 15, 16, 31, 64]))]
            w["conds"].insert(self.bpos(len(w["conds"])), self.cond(bad={"argidx": "argidx", "badop": "op"}.get(defect, "both")))
        elif defect == "bad_tail_of_extended":
            # a valid list, and right behind it the same list with ONE more condition that is defective (a longer window of
            # the same array: same first element, same prefix)
            if not g["nwc"]:
                cand = [n for n in names_all if n not in g["names"]]
                g["nwc"].append(dict(name=rng.choice(cand), conds=[self.cond() for _ in range(rng.randint(1, 3))]))
            i = rng.randrange(len(g["nwc"]))
            w = g["nwc"][i]
            tail = [self.cond() for _ in range(rng.randint(0, 2))] + [self.cond(bad=rng.choice(["argidx", "op", "both"]))]
            g["nwc"].insert(i + 1, dict(name=w["name"], conds=list(w["conds"]) + tail))
        elif defect == "empty_conds":
            cand = [n for n in names_all if n not in g["names"]]
            g["nwc"].insert(rng.randint(0, len(g["nwc"])), dict(name=rng.choice(cand), conds=[]))

    @staticmethod
    def tokens(pol):
        t = [str(pol["default"]), str(len(pol["groups"]))]
        for g in pol["groups"]:
            t += [str(g["action"]), str(len(g["names"]))] + [hexs(n) for n in g["names"]]
            t.append(str(len(g["nwc"])))
            for w in g["nwc"]:
                t += [hexs(w["name"]), str(len(w["conds"]))]
                for (a, o, v) in w["conds"]:
                    t += [str(a), o, str(v)]
        return " ".join(t)

    # -------------------------------------------------------------------------------------------- events
    def events(self, pol, count, foreign_share=0.15, x32_share=0.0):
        """Partition representatives for a policy: syscall numbers of its names (+-1), boundary numbers, the
        architecture and foreign ids, argument values around every operand, and argument words equal to other
        entries' syscall numbers / operands."""
        rng = self.rng
        ai = self.arches[pol["arch"]]
        num_of = {s: n for (n, s) in ai["table"]}
        mask = ai["mask"]
        nrs = set()
        cond_by_nr = {}
        for g in pol["groups"]:
            for nm in g["names"]:
                if nm in num_of:
                    nrs.add((num_of[nm] | mask) & M32)
            for w in g["nwc"]:
                if w["name"] in num_of:
                    nr = (num_of[w["name"]] | mask) & M32
                    nrs.add(nr)
                    cond_by_nr.setdefault(nr, []).append(w["conds"])
        listed = sorted(nrs)
        pool_nr = set(listed)
        for n in listed[:40]:
            pool_nr.update([(n + 1) & M32, (n - 1) & M32])
        pool_nr.update([0, 1, M32, 0x3fffffff, 0x40000000, 0x40000001, 0x7fffffff, 0x80000000, 4])
        for n in listed[:10]:
            pool_nr.add(n | 0x40000000)
        if mask:
            # a table whose numbers carry a mask: the same numbers without it belong to ANOTHER syscall
            for n in listed[:40]:
                pool_nr.add(n & ~mask & M32)
        pool_nr.update(rng.sample([n for (n, _) in ai["table"]], min(5, len(ai["table"]))))
        operands = [v for cl in cond_by_nr.values() for cs in cl for (_, _, v) in cs]
        leak = list(listed[:20]) + [v & M32 for v in operands[:20]] + [v >> 32 for v in operands[:20]]
        foreign = [a["id"] for a in self.arches.values() if a["id"] != ai["id"]] + [0, M32, ai["id"] ^ 1, ai["id"] ^ 0x80000000, ai["id"] & 0xffff]
        evs = []

        def argvals(v):
            c = [v, (v + 1) & M64, (v - 1) & M64, v ^ (1 << 32), v & M32, (v >> 32) << 32, (v + (1 << 32)) & M64,
                 (v - (1 << 32)) & M64, 0, M64, v ^ 1, v | (1 << 63), v & ~(1 << 63) & M64, ~v & M64]
            return rng.choice(c)

        def rand_args():
            return [rng.choice(leak) if leak and rng.random() < 0.3 else (rng.getrandbits(64) if rng.random() < 0.5 else rng.choice([0, 1, 5, M32, M64, 1 << 32])) for _ in range(6)]

        pool_nr = sorted(pool_nr)
        cond_nrs = sorted(cond_by_nr)
        for i in range(count):
            r = rng.random()
            if r < foreign_share:
                archw = rng.choice(foreign) if rng.random() < 0.8 else rng.getrandbits(32)
                nr = rng.choice(pool_nr)
                args = rand_args()
            elif r < foreign_share + x32_share:
                archw = ai["id"]
                nr = rng.choice([0x40000000, 0x40000001, M32, 0x7fffffff, 0x80000000, 0xc0000000 | rng.getrandbits(30),
                                 0x40000000 | rng.choice(pool_nr), 0x40000000 | rng.getrandbits(30), 0x3fffffff, rng.getrandbits(32)])
                args = rand_args()
            else:
                archw = ai["id"]
                if cond_nrs and rng.random() < 0.6:
                    nr = rng.choice(cond_nrs)
                    args = rand_args()
                    unmasked = mask and rng.random() < 0.5
                    # aim at one list of that syscall: satisfy / nearly satisfy each of its conditions
                    cs = rng.choice(cond_by_nr[nr])
                    for (a, o, v) in cs:
                        if a <= 5:
                            args[a] = self.satisfy(o, v) if rng.random() < 0.75 else argvals(v)
                    if rng.random() < 0.25 and cs:
                        (a, o, v) = rng.choice(cs)
                        if a <= 5:
                            args[a] = argvals(v)
                    if leak and cs and rng.random() < 0.15:
                        # all lists fail, and the argument a condition looks at holds (in its low half, its high half or both)
                        # a word that is another entry's syscall number or operand half
                        (a, o, v) = rng.choice(cs)
                        if a <= 5:
                            w = rng.choice(leak)
                            args[a] = rng.choice([w, w << 32, (w << 32) | w])
                    if len(cond_by_nr[nr]) > 1 and rng.random() < 0.35:
                        # a value built from this list's operand AND a sibling list's operand on the same argument
                        cs2 = rng.choice(cond_by_nr[nr])
                        for (a, o, v) in cs:
                            for (a2, o2, v2) in cs2:
                                if a == a2 and a <= 5 and v != v2:
                                    args[a] = rng.choice([v | v2, v & ~v2 & M64, v2 & ~v & M64, v ^ v2, v & v2, v2, ~(v | v2) & M64,
                                                          (v & ~v2 & M64) & -(v & ~v2 & M64) if v & ~v2 & M64 else v2 & -v2])
                    if unmasked:
                        nr = nr & ~mask & M32       # arguments that satisfy a rule written for a different number
                    elif rng.random() < 0.2:
                        # the same arguments under ANOTHER syscall number (one of the policy's or a neighbour)
                        nr = rng.choice(cond_nrs) if rng.random() < 0.5 else rng.choice(pool_nr)
                else:
                    nr = rng.choice(pool_nr) if rng.random() < 0.9 else rng.getrandbits(32)
                    args = rand_args()
            evs.append("V %d %d %d %s" % (nr, archw, rng.getrandbits(64), " ".join(str(a) for a in args)))
        return evs

    def satisfy(self, o, v):
        rng = self.rng
        if o == "Eq":
            return v
        if o == "Ne":
            return v ^ (1 << rng.randint(0, 63))
        if o == "Gt":
            return min(M64, v + rng.choice([1, 1 << 32, 2])) if v < M64 else v
        if o == "Ge":
            return min(M64, v + rng.choice([0, 1, 1 << 32]))
        if o == "Lt":
            return max(0, v - rng.choice([1, 1 << 32, 2])) if v > 0 else v
        if o == "Le":
            return max(0, v - rng.choice([0, 1, 1 << 32]))
        if o == "Set":
            return v & (rng.getrandbits(64) | (v & -v)) if v else 0
        if o == "NSet":
            return ~v & M64 & rng.getrandbits(64)
        return v
