"""Checks over the regenerated data: C12 (tables, architectures), C14 (text and configuration forms),
C19 (constants and stubs per build target), C13 (determinism, purity, races)."""
import json
import os
import random
import re
import subprocess
import time

from common import REPO, VERIF, GOENV, COQ
from corechecks import proof_step, finish_with_proof_status, rewrite_with_replay_cmd, Stream
from gencases import PolicyGen, parse_header, hexs, OPS, M64


def coq_str(b):
    """Coq string term for a byte string."""
    if isinstance(b, str):
        b = b.encode("utf-8", "surrogateescape")
    if all(32 <= c <= 126 for c in b):
        return '"%s"%%string' % b.decode().replace('"', '""')
    out = "EmptyString"
    for c in reversed(b):
        out = "(String (Ascii.ascii_of_N %d) %s)" % (c, out)
    return out


def unhex(tok):
    return bytes.fromhex(tok[1:])


def coq_eval(ctx, gen, name, body, timeout=900):
    """Compile a generated .v file that evaluates the model on observed outputs; returns (ok, stdout)."""
    d = os.path.join(ctx.scratch, "cases")
    os.makedirs(d, exist_ok=True)
    path = os.path.join(d, name + ".v")
    with open(path, "w") as f:
        f.write(body)
    ok, log = ctx.coqc([path], gen=gen, timeout=timeout)
    return ok, log


def parse_printed_list_empty(log, ident):
    """True iff `Print ident.` showed the empty list."""
    m = re.search(r"%s\s*=\s*(.*?)\n\s*:" % re.escape(ident), log, re.S)
    if not m:
        return None, ""
    val = " ".join(m.group(1).split())
    return val == "[]", val


CASE_PREAMBLE = """From Coq Require Import List NArith Bool String Ascii.
From Seccomp Require Import Result Policy Tables Text.
From Gen Require Import GenTables GenArches GenNames GenStubs GenConsts.
Import ListNotations.
Open Scope N_scope.
"""


def setup(ctx, prop_file, theorems):
    """regenerate gen/, compile the property file, build the harness. Returns gen dir or None."""
    ok, msg = ctx.ensure_theories()
    gen, log = ctx.regenerate()
    if gen is None:
        ctx.broken = "regeneration failed: " + log[-2000:]
        ctx.obligations += [t for t in theorems if t not in ctx.obligations]
    else:
        proof_step(ctx, prop_file, theorems, gen=gen)
    h, err = ctx.build_harness()
    if not h:
        ctx.violation("broken-obligation", dict(what="the harness does not build against the repository", log=err[-3000:]), False)
        return None, False
    return gen, True


def case_spellings(rng, word, n):
    """n spellings of word in other letter cases, incl. Unicode look-alikes that lower to ASCII."""
    out = set()
    out.add(word.upper())
    out.add(word.capitalize())
    for _ in range(n):
        s = "".join(c.upper() if rng.random() < 0.5 else c for c in word)
        out.add(s)
    bs = []
    for s in out:
        bs.append(s.encode())
    # Kelvin sign for k, dotted capital I for i
    if "k" in word:
        bs.append(word.replace("k", "K", 1).encode())
    if "i" in word:
        bs.append(word.replace("i", "İ", 1).encode())
    return bs


# ------------------------------------------------------------------------------------------------ C12
C12_THEOREMS = ["C12_five_tables", "C12_tables_nodup", "C12_lookups_inverse", "C12_invert_deterministic",
                "C12_agrees_with_oracles", "C12_oracles_overlap", "C12_audit_ids", "C12_alias_case_insensitive",
                "C12_alias_pairs", "C12_getinfo_shape", "C12_unsupported", "C12_supported_set"]


def check_C12(ctx, replay=None):
    rng = random.Random(ctx.seed * 1000003 + 12)
    gen, ok = setup(ctx, "C12.v", C12_THEOREMS)
    if not ok:
        return
    nbad = 0
    evaluations = 0
    # (a) runtime tables, in several fresh processes (map iteration order differs between processes)
    runs = 8 if ctx.tier == "quick" else 40
    outs = set()
    first = None
    for i in range(runs):
        r = ctx.run_harness(["tables"], "")
        outs.add(r.stdout)
        first = first or r.stdout
    if len(outs) != 1:
        nbad += 1
        p = ctx.violation("counterexample", dict(what="arch tables differ between process runs (map-order dependence)",
                                                 runs=runs, distinct=len(outs)), True)
        rewrite_with_replay_cmd(ctx, p)
    recs, nums, names = {}, {}, {}
    for ln in first.splitlines():
        f = ln.split()
        if f[0] == "T":
            recs[f[1]] = dict(name=unhex(f[2]).decode(), id=int(f[3]), mask=int(f[4]), nnum=int(f[5]), nname=int(f[6]))
        elif f[0] == "N":
            nums.setdefault(f[1], []).append((int(f[2]), unhex(f[3])))
        elif f[0] == "S":
            names.setdefault(f[1], []).append((unhex(f[2]), int(f[3])))
    # direct search on the implementation: lookups are mutual inverses, no name twice
    for k, r in recs.items():
        nn = dict(nums.get(k, []))
        ss = dict(names.get(k, []))
        evaluations += len(nn) + len(ss)
        problems = []
        if len(nn) != len(ss):
            problems.append("%d numbers but %d names" % (len(nn), len(ss)))
        for n, s in nn.items():
            if ss.get(s) != n:
                problems.append("number %d -> %s -> %s" % (n, s, ss.get(s)))
        for s, n in ss.items():
            if nn.get(n) != s:
                problems.append("name %s -> %d -> %s" % (s, n, nn.get(n)))
        if problems:
            nbad += 1
            p = ctx.violation("counterexample", dict(what="lookups of arch.%s are not mutual inverses" % k, problems=problems[:10]), True)
            rewrite_with_replay_cmd(ctx, p)
    # (b) GetInfo on alias spellings / non-aliases
    words = ["arm", "ppc", "ppc64", "ppc64le", "s390", "s390x", "mips", "mipsle", "mips64", "i386", "386", "x32", "x86_64", "amd64",
             "aarch64", "arm64", "mips64n32", "mips64p32", "mipsel64", "mips64le", "mipsel64n32", "mips64p32le"]
    inputs = [b""]
    for wd in words:
        inputs.append(wd.encode())
        inputs += case_spellings(rng, wd, 6 if ctx.tier == "quick" else 40)
    for wd in ["", " amd64", "amd64 ", "x86-64", "x8664", "amd", "AMD64\x00", "riscv64", "loong64", "sparc64", "wasm", "mipsel", "armeb",
               "ı386", "armé64", "\xff", "İ386"]:
        inputs.append(wd.encode("utf-8", "surrogateescape") if isinstance(wd, str) else wd)
    for _ in range(30 if ctx.tier == "quick" else 300):
        n = rng.randint(1, 8)
        inputs.append(bytes(rng.choice(b"aAmMdD64xX8_3iI2sSpPcClLeE 0") for _ in range(n)))
    if replay and replay.get("input_hex"):
        inputs = [bytes.fromhex(replay["input_hex"])]
    r = ctx.run_harness(["getinfo"], "\n".join("x" + b.hex() for b in inputs) + "\n")
    obs = []
    for ln in r.stdout.splitlines():
        f = ln.split()
        obs.append((unhex(f[0]), f[1], f[2] if len(f) > 2 else None))
    evaluations += len(obs)
    goarch = subprocess.run(["go", "env", "GOARCH"], capture_output=True, text=True, env=GOENV).stdout.strip()
    ncorr = 0
    if gen:
        body = CASE_PREAMBLE
        body += "Definition gi_cases : list (string * option string) := [\n"
        body += ";\n".join(" (%s, %s)" % (coq_str(b), ("Some %s" % coq_str(k)) if st == "OK" else "None") for (b, st, k) in obs)
        body += "\n].\n"
        body += """Definition key_of (ai:arch_info) : option string :=
  match filter (fun e => String.eqb (ai_name (snd e)) (ai_name ai) && (ai_id (snd e) =? ai_id ai) && (ai_mask (snd e) =? ai_mask ai)) all_infos with
  | e :: _ => Some (fst e) | [] => None end.
Definition gi_ok (c:string * option string) : bool :=
  match get_info aliases %s (fst c), snd c with
  | Ok ai, Some k => match key_of ai with Some k' => String.eqb k k' | None => false end
  | Error _, None => true
  | _, _ => false
  end.
Definition gi_mismatches := Eval vm_compute in filter (fun c => negb (gi_ok c)) gi_cases.
Print gi_mismatches.
""" % coq_str(goarch)
        # runtime tables vs regenerated tables
        body += "Definition rt_tables : list (string * N * N * list (N * string)) := [\n"
        rows = []
        for k in sorted(recs):
            ents = "; ".join("(%d, %s)" % (n, coq_str(s)) for (n, s) in nums.get(k, []))
            rows.append(" (%s, %d, %d, [%s])" % (coq_str(k), recs[k]["id"], recs[k]["mask"], ents))
        body += ";\n".join(rows) + "\n].\n"
        body += """Fixpoint tbl_eqb (a b:list (N*string)) : bool :=
  match a, b with
  | [], [] => true
  | (n, s) :: r, (n', s') :: r' => (n =? n') && String.eqb s s' && tbl_eqb r r'
  | _, _ => false
  end.
Fixpoint insert_sorted (e:N*string) (l:list (N*string)) : list (N*string) :=
  match l with [] => [e] | x :: r => if fst e <=? fst x then e :: l else x :: insert_sorted e r end.
Definition sort_tbl (l:list (N*string)) := fold_right insert_sorted [] l.
Definition rt_ok (c:string * N * N * list (N * string)) : bool :=
  let '(k, id, mask, t) := c in
  match assoc all_infos k with
  | Some ai => (ai_id ai =? id) && (ai_mask ai =? mask) && tbl_eqb (sort_tbl (ai_table ai)) t
  | None => false
  end.
Definition rt_mismatches := Eval vm_compute in map (fun c => fst (fst (fst c))) (filter (fun c => negb (rt_ok c)) rt_tables).
Print rt_mismatches.
Definition rt_count_ok := Eval vm_compute in Nat.eqb (List.length rt_tables) (List.length all_infos).
Print rt_count_ok.
"""
        okc, log = coq_eval(ctx, gen, "c12cases", body)
        if not okc:
            ctx.broken = (getattr(ctx, "broken", None) or "") + "\ncases file failed: " + log[-1500:]
        else:
            e1, v1 = parse_printed_list_empty(log, "gi_mismatches")
            e2, v2 = parse_printed_list_empty(log, "rt_mismatches")
            ncorr = len(obs) + len(recs)
            if not e1:
                # model and implementation differ on GetInfo for some spelling: is the property violated?
                # the property: alias spellings in any letter case resolve to the same table; non-aliases are unsupported.
                p = ctx.violation("correspondence", dict(stream="arch.GetInfo vs get_info over regenerated aliases", mismatches=v1[:3000]), False)
                rewrite_with_replay_cmd(ctx, p)
            if not e2 or "true" not in log.split("rt_count_ok")[-1]:
                p = ctx.violation("correspondence", dict(stream="runtime tables vs regenerated tables (translator cross-check)", mismatches=(v2 or "")[:3000]), False)
                rewrite_with_replay_cmd(ctx, p)
    # direct search on GetInfo (property text itself, independent of the model)
    expect = {"amd64": "X86_64", "x86_64": "X86_64", "386": "I386", "i386": "I386", "arm64": "AARCH64", "aarch64": "AARCH64",
              "arm": "ARM", "x32": "X32"}
    for (b, st, k) in obs:
        try:
            s = b.decode()
        except UnicodeDecodeError:
            continue
        low = s.lower() if s.isascii() else None
        if low in expect and (st != "OK" or k != expect[low]):
            nbad += 1
            p = ctx.violation("counterexample", dict(what="alias spelling does not resolve to its table", input=s, input_hex=b.hex(),
                                                     expected=expect[low], actual="%s %s" % (st, k)), True)
            rewrite_with_replay_cmd(ctx, p)
        if st == "OK" and recs.get(k, {}).get("nnum", 0) == 0:
            nbad += 1
            p = ctx.violation("counterexample", dict(what="GetInfo returned a record without tables", input=s, input_hex=b.hex(), actual=k), True)
            rewrite_with_replay_cmd(ctx, p)
        if st == "PANIC":
            nbad += 1
            p = ctx.violation("counterexample", dict(what="GetInfo panicked", input_hex=b.hex()), True)
            rewrite_with_replay_cmd(ctx, p)
    ctx.coverage.update(dict(
        evaluations=evaluations, distinct_nontrivial=len(set(b for (b, st, k) in obs if st == "OK")),
        rule="table entries read back from the running package in %d fresh processes (both maps of all 16 records) and compared with the regenerated tables inside Coq; arch.GetInfo on every alias in random letter-case patterns, Unicode look-alikes, near-misses and random strings, compared with get_info evaluated by vm_compute over the regenerated alias list; non-trivial = distinct spellings that resolve to a table" % runs,
        traces_validated_against_impl=ncorr, process_runs=runs, counterexamples=nbad,
        input_distribution=dict(getinfo_inputs=len(obs), resolved=sum(1 for o in obs if o[1] == "OK"), rejected=sum(1 for o in obs if o[1] == "ERR"),
                                table_sizes={k: v["nnum"] for k, v in recs.items() if v["nnum"]}),
        samples=[dict(input=o[0].decode("utf-8", "replace"), result=o[1], record=o[2]) for o in obs[1:6]],
    ))
    finish_with_proof_status(ctx, nbad, "C12 theorems over the regenerated tables")


CHECKS = {"C12": check_C12}
