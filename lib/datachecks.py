"""Checks over the regenerated data: C12 (tables, architectures), C14 (text and configuration forms),
C19 (constants and stubs per build target), C13 (determinism, purity, races)."""
import json
import os
import random
import re
import subprocess
import time

import ambient
from common import REPO, VERIF, GOENV, COQ
from corechecks import proof_step, finish_with_proof_status, rewrite_with_replay_cmd, Stream
from gencases import PolicyGen, parse_header, hexs, OPS, M64


def coq_str(b):
    """Coq string term for a byte string."""
    if isinstance(b, str):
        b = b.encode("utf-8", "surrogateescape")
    if all(32 <= c <= 126 for c in b):
        return '"%s"%%string' % b.decode().replace('"', '""')
    out = "EmptyString"
    for c in reversed(b):
        out = "(String (Ascii.ascii_of_N %d) %s)" % (c, out)
    return out


def unhex(tok):
    return bytes.fromhex(tok[1:])


def coq_eval(ctx, gen, name, body, timeout=900):
    """Compile a generated .v file that evaluates the model on observed outputs; returns (ok, stdout)."""
    d = os.path.join(ctx.scratch, "cases")
    os.makedirs(d, exist_ok=True)
    path = os.path.join(d, name + ".v")
    with open(path, "w") as f:
        f.write(body)
    ok, log = ctx.coqc([path], gen=gen, timeout=timeout)
    return ok, log


def parse_printed_list_empty(log, ident):
    """True iff `Print ident.` showed the empty list."""
    m = re.search(r"%s\s*=\s*(.*?)\n\s*:" % re.escape(ident), log, re.S)
    if not m:
        return None, ""
    val = " ".join(m.group(1).split())
    return val == "[]", val


CASE_PREAMBLE = """From Coq Require Import List NArith Bool String Ascii.
From Seccomp Require Import Result Policy Tables Text.
From Gen Require Import GenTables GenArches GenNames GenStubs GenConsts.
Import ListNotations.
Open Scope N_scope.
"""


def setup(ctx, prop_file, theorems):
    """regenerate gen/, compile the property file, build the harness. Returns gen dir or None."""
    ok, msg = ctx.ensure_theories()
    gen, log = ctx.regenerate()
    if gen is None:
        ctx.broken = "regeneration failed: " + log[-2000:]
        ctx.obligations += [t for t in theorems if t not in ctx.obligations]
    else:
        proof_step(ctx, prop_file, theorems, gen=gen)
    h, err = ctx.build_harness()
    if not h:
        ctx.violation("broken-obligation", dict(what="the harness does not build against the repository", log=err[-3000:]), False)
        return None, False
    return gen, True


def case_spellings(rng, word, n):
    """n spellings of word in other letter cases, incl. Unicode look-alikes that lower to ASCII."""
    out = set()
    out.add(word.upper())
    out.add(word.capitalize())
    for _ in range(n):
        s = "".join(c.upper() if rng.random() < 0.5 else c for c in word)
        out.add(s)
    bs = []
    for s in out:
        bs.append(s.encode())
    # Kelvin sign for k, dotted capital I for i
    if "k" in word:
        bs.append(word.replace("k", "K", 1).encode())
    if "i" in word:
        bs.append(word.replace("i", "İ", 1).encode())
    return bs


# ------------------------------------------------------------------------------------------------ C12
C12_THEOREMS = ["C12_agrees_with_oracles_by_number", "C12_tables_cover_complete_sources", "C12_five_tables", "C12_tables_nodup", "C12_lookups_inverse", "C12_invert_deterministic",
                "C12_agrees_with_oracles", "C12_oracles_overlap", "C12_audit_ids", "C12_every_audit_constant_is_the_kernels", "C12_alias_case_insensitive",
                "C12_alias_pairs", "C12_getinfo_shape", "C12_unsupported", "C12_supported_set"]


def rng_choice_key(rng, a):
    """the record handed to the parser: the architecture itself or, for x86_64 code, sometimes the x32 record"""
    return "X32" if a == "X86_64" and rng.random() < 0.3 else a


def check_C12(ctx, replay=None):
    rng = random.Random(ctx.seed * 1000003 + 12)
    gen, ok = setup(ctx, "C12.v", C12_THEOREMS)
    if not ok:
        return
    nbad = 0
    evaluations = 0
    # (a) runtime tables, in several fresh processes (map iteration order differs between processes)
    runs = 8 if ctx.tier == "quick" else 40
    outs = set()
    first = None
    used_outs = {}
    for i in range(runs):
        if i % 2 == 1:
            # ... and after the process has put the module to work on the records: lookups, compilations (also refused
            # ones) for every record, the profiler's listing parser on listings with known and unknown syscall numbers
            import disasmchecks as D
            lrng = random.Random(ctx.seed * 7919 + i)
            ls = []
            tabs0 = {}
            for ln in (first or "").splitlines():
                f = ln.split()
                if f[0] == "N":
                    tabs0.setdefault(f[1], {})[int(f[2])] = unhex(f[3])
            for a in ("X86_64", "I386", "X86_64", "I386"):
                if tabs0.get(a):
                    text, _, _ = D.SiteModel(lrng, a, tabs0[a]).listing()
                    ls.append("L %s x%s" % (rng_choice_key(lrng, a), text.hex()))
            uinp = "\n".join(ls) + "\n"
            r = ctx.run_harness(["tables", "after-use"], uinp)
            used_outs[r.stdout] = uinp
        else:
            r = ctx.run_harness(["tables"], "")
        outs.add(r.stdout)
        first = first or r.stdout
    if len(outs) != 1:
        nbad += 1
        changed = [u for o, u in used_outs.items() if o != first]
        p = ctx.violation("counterexample", dict(what="arch tables differ between process runs (map-order dependence)" if not changed else
                                                 "the tables of package arch read differently after the process used the module (lookups, compilations for every record, the profiler's listing parser on the listings given): they are shared mutable state",
                                                 runs=runs, distinct=len(outs), listings=changed[0][:6000] if changed else None,
                                                 replay_hint="harness tables after-use < listings  vs  harness tables" if changed else None), True)
        rewrite_with_replay_cmd(ctx, p)
    recs, nums, names = {}, {}, {}
    for ln in first.splitlines():
        f = ln.split()
        if f[0] == "T":
            recs[f[1]] = dict(name=unhex(f[2]).decode(), id=int(f[3]), mask=int(f[4]), nnum=int(f[5]), nname=int(f[6]))
        elif f[0] == "N":
            nums.setdefault(f[1], []).append((int(f[2]), unhex(f[3])))
        elif f[0] == "S":
            names.setdefault(f[1], []).append((unhex(f[2]), int(f[3])))
    # direct search on the implementation: lookups are mutual inverses, no name twice
    for k, r in recs.items():
        nn = dict(nums.get(k, []))
        ss = dict(names.get(k, []))
        evaluations += len(nn) + len(ss)
        problems = []
        if len(nn) != len(ss):
            problems.append("%d numbers but %d names" % (len(nn), len(ss)))
        for n, s in nn.items():
            if ss.get(s) != n:
                problems.append("number %d -> %s -> %s" % (n, s, ss.get(s)))
        for s, n in ss.items():
            if nn.get(n) != s:
                problems.append("name %s -> %d -> %s" % (s, n, nn.get(n)))
        if problems:
            nbad += 1
            p = ctx.violation("counterexample", dict(what="lookups of arch.%s are not mutual inverses" % k, problems=problems[:10]), True)
            rewrite_with_replay_cmd(ctx, p)
    # direct search on the implementation: each record's audit identifier is the kernel's AUDIT_ARCH constant
    # (vendored UAPI constants of coq/oracle/OracleConsts.v, the same the theorem C12_audit_ids is stated with)
    kc = {}
    with open(os.path.join(COQ, "oracle", "OracleConsts.v")) as f:
        for m in re.finditer(r"Definition (\w+) : N := (\d+)\.", f.read()):
            kc[m.group(1)] = int(m.group(2))
    B64, LE, N32 = kc["AUDIT_ARCH_64BIT"], kc["AUDIT_ARCH_LE"], kc["AUDIT_ARCH_CONVENTION_MIPS64_N32"]
    kernel_id = {"X86_64": kc["EM_X86_64"] | B64 | LE, "X32": kc["EM_X86_64"] | B64 | LE, "I386": kc["EM_386"] | LE, "ARM": kc["EM_ARM"] | LE,
                 "AARCH64": kc["EM_AARCH64"] | B64 | LE, "PPC": kc["EM_PPC"], "PPC64": kc["EM_PPC64"] | B64, "PPC64LE": kc["EM_PPC64"] | B64 | LE,
                 "S390": kc["EM_S390"], "S390X": kc["EM_S390"] | B64, "MIPS": kc["EM_MIPS"], "MIPSEL": kc["EM_MIPS"] | LE,
                 "MIPS64": kc["EM_MIPS"] | B64, "MIPSEL64": kc["EM_MIPS"] | B64 | LE, "MIPS64N32": kc["EM_MIPS"] | B64 | N32,
                 "MIPSEL64N32": kc["EM_MIPS"] | B64 | LE | N32}
    for k, r in recs.items():
        evaluations += 1
        if k in kernel_id and r["id"] != kernel_id[k]:
            nbad += 1
            p = ctx.violation("counterexample", dict(what="the audit identifier of arch.%s is not the kernel's AUDIT_ARCH constant" % k,
                                                     record=k, actual="0x%x" % r["id"], kernel="0x%x" % kernel_id[k]), True)
            rewrite_with_replay_cmd(ctx, p)
    # direct search: EVERY audit-architecture constant of the package (regenerated audit_consts: the values the Go type
    # checker gives the source now) against the kernel's constant of the same name (vendored OracleAudit.v)
    with open(os.path.join(COQ, "oracle", "OracleAudit.v")) as f:
        kaudit = {a: int(b) for a, b in re.findall(r'\("(AUDIT_ARCH_\w+)"%string, (\d+)\)', f.read())}
    try:
        gar = open(os.path.join(gen, "GenArches.v")).read()
        blk = gar[gar.find("Definition audit_consts"):]
        blk = blk[:blk.find("].")]
        for gname, val in re.findall(r'\("(auditArch\w+)"(?:%string)?, (\d+)\)', blk):
            evaluations += 1
            kn = "AUDIT_ARCH_" + gname[len("auditArch"):]
            # a name the vendored header does not know (a constant of a newer kernel) is no failing input: the theorem
            # then no longer checks and says so; a value that differs from the kernel's constant of that name is one
            if kn in kaudit and kaudit[kn] != int(val):
                nbad += 1
                p = ctx.violation("counterexample", dict(what="the constant arch.%s is not the kernel's %s" % (gname, kn), constant=gname, actual="0x%x" % int(val),
                                                         kernel="0x%x" % kaudit[kn], observable="arch.AuditArch(0x%x).String()" % kaudit[kn]), True)
                rewrite_with_replay_cmd(ctx, p)
    except OSError:
        pass
    # direct search: every number of a runtime table against the independent tables (vendored: kernel UAPI headers, x/sys,
    # Go's syscall package), by number as well as by name
    otxt = open(os.path.join(COQ, "oracle", "OracleTables.v")).read()
    otables = {}
    for m in re.finditer(r'Definition (\w+) : list \(N \* string\) := \[(.*?)\]\.', otxt, re.S):
        otables[m.group(1)] = [(int(a), b) for a, b in re.findall(r'\((\d+), "([^"]*)"%string\)', m.group(2))]
    for m in re.finditer(r'\("(\w+)"%string, "(\w+)"%string, (\w+)\)', otxt):
        oname, abi, tname = m.group(1), m.group(2), m.group(3)
        rt = dict(nums.get(abi, []))
        rn = {s: n for (n, s) in nums.get(abi, [])}
        onum = {}
        for (n, s) in otables.get(tname, []):
            onum.setdefault(n, set()).add(s.encode())
            evaluations += 1
            if s.encode() in rn and rn[s.encode()] != n:
                nbad += 1
                p = ctx.violation("counterexample", dict(what="a syscall number of arch.%s disagrees with an independent source" % abi, source=oname,
                                                         name=s, table_number=rn[s.encode()], source_number=n), True)
                rewrite_with_replay_cmd(ctx, p)
        if oname in ("uapi_x86_64", "uapi_i386", "uapi_x32", "uapi_generic64", "gosyscall_amd64", "gosyscall_arm64") and rn:
            # the sources that describe the same kernel releases as the tables are COVERED by them (C12_tables_cover_complete_sources)
            for (n, s) in otables.get(tname, []):
                if s.encode() not in rn and (n, s) != (84, "sync_file_range2"):
                    nbad += 1
                    p = ctx.violation("counterexample", dict(what="arch.%s has no entry for a syscall that an independent source of the same kernel range lists: a policy naming it is refused (or, by number, the call is unknown)" % abi,
                                                             source=oname, name=s, source_number=n, table_name_at_that_number=(rt.get(n) or b"").decode() or None), True)
                    rewrite_with_replay_cmd(ctx, p)
        for n, s in rt.items():
            if n in onum and s not in onum[n] and not (s == b"fstatat" and b"newfstatat" in onum[n]):
                nbad += 1
                p = ctx.violation("counterexample", dict(what="arch.%s gives a number to another syscall than an independent source does" % abi, source=oname,
                                                         number=n, table_name=s.decode(), source_names=sorted(x.decode() for x in onum[n])), True)
                rewrite_with_replay_cmd(ctx, p)
    ids_seen = {}
    for k, r in recs.items():
        ids_seen.setdefault(r["id"], []).append(k)
    # (b) GetInfo on alias spellings / non-aliases
    words = ["arm", "ppc", "ppc64", "ppc64le", "s390", "s390x", "mips", "mipsle", "mips64", "i386", "386", "x32", "x86_64", "amd64",
             "aarch64", "arm64", "mips64n32", "mips64p32", "mipsel64", "mips64le", "mipsel64n32", "mips64p32le"]
    inputs = [b""]
    for wd in words:
        inputs.append(wd.encode())
        inputs += case_spellings(rng, wd, 6 if ctx.tier == "quick" else 40)
    for wd in ["", " amd64", "amd64 ", "x86-64", "x8664", "amd", "AMD64\x00", "riscv64", "loong64", "sparc64", "wasm", "mipsel", "armeb",
               "ı386", "armé64", "\xff", "İ386"]:
        inputs.append(wd.encode("utf-8", "surrogateescape") if isinstance(wd, str) else wd)
    for wd in ["armeb", "armv7b", "armv7l", "aarch64_be", "arm64be", "arm64_32", "i486", "i586", "i686", "ia64", "sparc", "sparc64", "parisc", "parisc64",
               "alpha", "sh", "sh64", "m68k", "riscv32", "riscv64", "loongarch64", "loongarch32", "ppcle", "s390x ", "mips64el", "x86", "x64", "ia32", "cris",
               "frv", "h8300", "m32r", "microblaze", "openrisc", "tilegx", "tilepro", "unicore", "xtensa", "hexagon", "nds32", "arcompact", "arcv2", "c6x", "csky"]:
        inputs.append(wd.encode())
        inputs.append(wd.upper().encode())
    for _ in range(30 if ctx.tier == "quick" else 300):
        n = rng.randint(1, 8)
        inputs.append(bytes(rng.choice(b"aAmMdD64xX8_3iI2sSpPcClLeE 0") for _ in range(n)))
    if replay and replay.get("input_hex"):
        inputs = [bytes.fromhex(replay["input_hex"])]
    ginp = "\n".join("x" + b.hex() for b in inputs) + "\n"
    r = ctx.run_harness(["getinfo"], ginp)
    # alias resolution must not depend on the process either (package initialisation may iterate maps)
    gouts = {r.stdout}
    for _ in range(7 if ctx.tier == "quick" else 39):
        gouts.add(ctx.run_harness(["getinfo"], ginp).stdout)
    if len(gouts) != 1:
        nbad += 1
        diffs = []
        outs = sorted(gouts)
        for a, b in zip(outs[0].splitlines(), outs[1].splitlines()):
            if a != b:
                diffs.append((a, b))
        p = ctx.violation("counterexample", dict(what="arch.GetInfo resolves a name differently in different process runs (order dependence at initialisation)",
                                                 distinct_outputs=len(gouts), first_differences=diffs[:5],
                                                 input_hex=(unhex(diffs[0][0].split()[0]).hex() if diffs else None)), True)
        rewrite_with_replay_cmd(ctx, p)
    obs = []
    for ln in r.stdout.splitlines():
        f = ln.split()
        obs.append((unhex(f[0]), f[1], f[2] if len(f) > 2 else None))
    # the default architecture (empty name) must not depend on what was looked up before in the process
    native = obs[0][2] if obs and obs[0][0] == b"" else None
    for first in ["arm", "386", "x32", "arm64", "ARM", "nope", "mips"]:
        rr = ctx.run_harness(["getinfo"], "x%s\nx\nx%s\nx\n" % (first.encode().hex(), "amd64".encode().hex()))
        got = [ln.split() for ln in rr.stdout.splitlines()]
        evaluations += len(got)
        for gline in got:
            if unhex(gline[0]) == b"" and (gline[1:2] != ["OK"] or (gline[2] if len(gline) > 2 else None) != native):
                nbad += 1
                p = ctx.violation("counterexample", dict(what="arch.GetInfo(\"\") depends on the lookups made before it in the process",
                                                         lookups_in_order=[first, "", "amd64", ""], expected=native, actual=" ".join(gline[1:])), True)
                rewrite_with_replay_cmd(ctx, p)
                break
    evaluations += len(obs)
    goarch = subprocess.run(["go", "env", "GOARCH"], capture_output=True, text=True, env=GOENV).stdout.strip()
    ncorr = 0
    if gen:
        body = CASE_PREAMBLE
        body += "Definition gi_cases : list (string * option string) := [\n"
        body += ";\n".join(" (%s, %s)" % (coq_str(b), ("Some %s" % coq_str(k)) if st == "OK" else "None") for (b, st, k) in obs)
        body += "\n].\n"
        body += """Definition key_of (ai:arch_info) : option string :=
  match filter (fun e => String.eqb (ai_name (snd e)) (ai_name ai) && (ai_id (snd e) =? ai_id ai) && (ai_mask (snd e) =? ai_mask ai)) all_infos with
  | e :: _ => Some (fst e) | [] => None end.
Definition gi_ok (c:string * option string) : bool :=
  match get_info aliases %s (fst c), snd c with
  | Ok ai, Some k => match key_of ai with Some k' => String.eqb k k' | None => false end
  | Error _, None => true
  | _, _ => false
  end.
Definition gi_mismatches := Eval vm_compute in filter (fun c => negb (gi_ok c)) gi_cases.
Print gi_mismatches.
""" % coq_str(goarch)
        # runtime tables vs regenerated tables
        body += "Definition rt_tables : list (string * N * N * list (N * string)) := [\n"
        rows = []
        for k in sorted(recs):
            ents = "; ".join("(%d, %s)" % (n, coq_str(s)) for (n, s) in nums.get(k, []))
            rows.append(" (%s, %d, %d, [%s])" % (coq_str(k), recs[k]["id"], recs[k]["mask"], ents))
        body += ";\n".join(rows) + "\n].\n"
        body += """Fixpoint tbl_eqb (a b:list (N*string)) : bool :=
  match a, b with
  | [], [] => true
  | (n, s) :: r, (n', s') :: r' => (n =? n') && String.eqb s s' && tbl_eqb r r'
  | _, _ => false
  end.
Fixpoint insert_sorted (e:N*string) (l:list (N*string)) : list (N*string) :=
  match l with [] => [e] | x :: r => if fst e <=? fst x then e :: l else x :: insert_sorted e r end.
Definition sort_tbl (l:list (N*string)) := fold_right insert_sorted [] l.
Definition rt_ok (c:string * N * N * list (N * string)) : bool :=
  let '(k, id, mask, t) := c in
  match assoc all_infos k with
  | Some ai => (ai_id ai =? id) && (ai_mask ai =? mask) && tbl_eqb (sort_tbl (ai_table ai)) t
  | None => false
  end.
Definition rt_mismatches := Eval vm_compute in map (fun c => fst (fst (fst c))) (filter (fun c => negb (rt_ok c)) rt_tables).
Print rt_mismatches.
Definition rt_count_ok := Eval vm_compute in Nat.eqb (List.length rt_tables) (List.length all_infos).
Print rt_count_ok.
"""
        okc, log = coq_eval(ctx, gen, "c12cases", body)
        if not okc:
            ctx.broken = (getattr(ctx, "broken", None) or "") + "\ncases file failed: " + log[-1500:]
        else:
            e1, v1 = parse_printed_list_empty(log, "gi_mismatches")
            e2, v2 = parse_printed_list_empty(log, "rt_mismatches")
            ncorr = len(obs) + len(recs)
            if not e1:
                # model and implementation differ on GetInfo for some spelling: is the property violated?
                # the property: alias spellings in any letter case resolve to the same table; non-aliases are unsupported.
                p = ctx.violation("correspondence", dict(stream="arch.GetInfo vs get_info over regenerated aliases", mismatches=v1[:3000]), False)
                rewrite_with_replay_cmd(ctx, p)
            if not e2 or "true" not in log.split("rt_count_ok")[-1]:
                p = ctx.violation("correspondence", dict(stream="runtime tables vs regenerated tables (translator cross-check)", mismatches=(v2 or "")[:3000]), False)
                rewrite_with_replay_cmd(ctx, p)
    # direct search on GetInfo (property text itself, independent of the model)
    expect = {"amd64": "X86_64", "x86_64": "X86_64", "386": "I386", "i386": "I386", "arm64": "AARCH64", "aarch64": "AARCH64",
              "arm": "ARM", "x32": "X32"}
    # every architecture name known to the package: the names of its records and of its audit-architecture table
    known_names = set(r["name"].lower() for r in recs.values())
    if gen:
        with open(os.path.join(gen, "GenArches.v")) as f:
            gtext = f.read()
        i0 = gtext.find("Definition audit_names")
        if i0 >= 0:
            known_names.update(m.group(1).lower() for m in re.finditer(r'\(\d+, "([^"]*)"%string\)', gtext[i0:gtext.find("].", i0)]))
    for (b, st, k) in obs:
        try:
            s = b.decode()
        except UnicodeDecodeError:
            continue
        low = s.lower() if s.isascii() else None
        if low in expect and (st != "OK" or k != expect[low]):
            nbad += 1
            p = ctx.violation("counterexample", dict(what="alias spelling does not resolve to its table", input=s, input_hex=b.hex(),
                                                     expected=expect[low], actual="%s %s" % (st, k)), True)
            rewrite_with_replay_cmd(ctx, p)
        if st == "OK" and low is not None and low not in expect and low in known_names:
            nbad += 1
            p = ctx.violation("counterexample", dict(what="the name of an architecture without syscall tables (known to the package) resolves to a table instead of being unsupported",
                                                     input=s, input_hex=b.hex(), actual=k), True)
            rewrite_with_replay_cmd(ctx, p)
        if st == "OK" and recs.get(k, {}).get("nnum", 0) == 0:
            nbad += 1
            p = ctx.violation("counterexample", dict(what="GetInfo returned a record without tables", input=s, input_hex=b.hex(), actual=k), True)
            rewrite_with_replay_cmd(ctx, p)
        if st == "PANIC":
            nbad += 1
            p = ctx.violation("counterexample", dict(what="GetInfo panicked", input_hex=b.hex()), True)
            rewrite_with_replay_cmd(ctx, p)
    if not replay or replay.get("ambient"):
        # the record an empty name resolves to is the build's own, whatever the environment or the kernel's uname say
        from corechecks import ambient_passes
        nv = len(ctx.violations)
        ambient_passes(ctx, "C12", ["names"], replay=replay if replay and replay.get("ambient") else None, npol=(6, 30), nev=3)
        nbad += sum(1 for _, nf in ctx.violations[nv:] if not nf)
        evaluations += ctx.coverage.get("hostile_surroundings", {}).get("programs", 0)
    ctx.coverage.update(dict(
        evaluations=evaluations, distinct_nontrivial=len(set(b for (b, st, k) in obs if st == "OK")),
        rule="table entries read back from the running package in %d fresh processes (both maps of all 16 records) and compared with the regenerated tables inside Coq; arch.GetInfo on every alias in random letter-case patterns, Unicode look-alikes, near-misses and random strings, compared with get_info evaluated by vm_compute over the regenerated alias list; non-trivial = distinct spellings that resolve to a table" % runs,
        traces_validated_against_impl=ncorr, process_runs=runs, counterexamples=nbad,
        input_distribution=dict(getinfo_inputs=len(obs), resolved=sum(1 for o in obs if o[1] == "OK"), rejected=sum(1 for o in obs if o[1] == "ERR"),
                                table_sizes={k: v["nnum"] for k, v in recs.items() if v["nnum"]}),
        samples=[dict(input=o[0].decode("utf-8", "replace"), result=o[1], record=o[2]) for o in obs[1:6]],
    ))
    finish_with_proof_status(ctx, nbad, "C12 theorems over the regenerated tables")


CHECKS = {"C12": check_C12}


# ------------------------------------------------------------------------------------------------ C14
C14_THEOREMS = ["C14_action_table_shape", "C14_unpack_sound", "C14_documented_names", "C14_unknown_rejected", "C14_print_parse",
                "C14_unpack_order_independent", "C14_operations", "C14_operation_constants", "C14_tags_consistent", "C14_tags_present"]

DOC_ACTIONS = {"kill_thread": 0, "kill_process": 0x80000000, "trap": 0x30000, "errno": 0x50000, "trace": 0x7ff00000,
               "log": 0x7ffc0000, "allow": 0x7fff0000}
DOC_OPS = ["Equal", "NotEqual", "GreaterThan", "LessThan", "GreaterOrEqual", "LessOrEqual", "BitsSet", "BitsNotSet"]
OP_TOKEN = dict(zip(OPS, DOC_OPS))


def go_lower(b):
    """strings.ToLower on a byte string (valid UTF-8 is mapped rune by rune; invalid bytes are kept by Go's ASCII fast
    path only when the whole string is ASCII - otherwise they become U+FFFD: callers avoid that case)."""
    if b.isascii():
        return b.lower()
    try:
        # Go maps rune by rune with the simple case mapping: U+0130 -> 'i' (Python's full mapping would give two runes)
        return "".join("i" if ch == "\u0130" else (ch.lower() if len(ch.lower()) == 1 else ch) for ch in b.decode("utf-8")).encode("utf-8")
    except UnicodeDecodeError:
        return None


def yaml_of_policy(pol, rng):
    """Render a policy as the YAML text a user would write (the documented configuration form)."""
    inv = {v: k for k, v in DOC_ACTIONS.items()}

    def act(a):
        s = inv[a]
        r = rng.random()
        return s.upper() if r < 0.15 else (s.capitalize() if r < 0.3 else s)
    out = ["seccomp:", "  default_action: %s" % act(pol["default"]), "  syscalls:"]
    if pol["default"] == 0 and rng.random() < 0.6:
        # a key left out means the field's zero value (kill_thread; default_action is not a required key): nothing else may
        # be filled in for it
        out = ["seccomp:", "  syscalls:"]
    for g in pol["groups"]:
        out.append("  - action: %s" % act(g["action"]))
        if g["names"]:
            out.append("    names:")
            for n in g["names"]:
                out.append("    - %s" % n)
        if g["nwc"]:
            out.append("    names_with_args:")
            for w in g["nwc"]:
                out.append("    - name: %s" % w["name"])
                out.append("      arguments:")
                for (a, o, v) in w["conds"]:
                    op = OP_TOKEN[o]
                    r = rng.random()
                    op = op.lower() if r < 0.2 else (op.upper() if r < 0.3 else op)
                    out.append("      - argument: %d" % a)
                    out.append("        operation: %s" % op)
                    out.append("        value: %s" % (str(v) if rng.random() < 0.7 or v >= (1 << 63) else hex(v)))
    return "\n".join(out) + "\n"


def check_C14(ctx, replay=None):
    rng = random.Random(ctx.seed * 1000003 + 14)
    gen, ok = setup(ctx, "C14.v", C14_THEOREMS)
    if not ok:
        return
    nbad = 0
    q = ctx.tier == "quick"
    # ---- (a) strings offered to the parsers
    strings = set()
    for nm in list(DOC_ACTIONS) + ["user_notify", "kill", "killprocess", "permit", "deny", "unknown", "", "allow ", " allow", "allow\n",
                                   "allow\x00", "a", "allo", "allowx", "errno1", "0", "0x7fff0000", "2147418112", "true", "ALLOW|LOG"]:
        strings.add(nm.encode())
        for b in case_spellings(rng, nm, 6 if q else 40) if nm else []:
            strings.add(b)
    for nm in DOC_OPS + ["equal", "eq", "==", "Equals", "Bits_Set", "bitsset", "NOTEQUAL", "", "GreaterThan ", "lessthan", "LessOrEqual\t"]:
        strings.add(nm.encode())
        for b in case_spellings(rng, nm, 4 if q else 30) if nm else []:
            strings.add(b)
    for _ in range(60 if q else 2000):
        n = rng.randint(1, 12)
        strings.add(bytes(rng.choice(b"alowLOWkiKItrap_TRAPEqualNotBitsSe ") for _ in range(n)))
    strings = sorted(s for s in strings if b"\n" not in s or True)
    if replay and replay.get("input_hex") is not None:
        strings = [bytes.fromhex(replay["input_hex"])]
    lines = []
    for s in strings:
        lines.append("AU x" + s.hex())
        lines.append("OU x" + s.hex())
    values = sorted(set(list(DOC_ACTIONS.values()) + [0x7fc00000, 1, 0x50001, 0x7fff0001, 0xffffffff, 0x80000001] + [rng.getrandbits(32) for _ in range(20)]))
    for v in values:
        lines += ["AS %d" % v, "AM %d" % v]
    for fl in list(range(0, 9)) + [16, 0xffffffff, 0x80000001]:
        lines += ["FS %d" % fl, "FM %d" % fl]
    r = ctx.run_harness(["text"], "\n".join(lines) + "\n")
    obs = [ln.split() for ln in r.stdout.splitlines() if ln.strip()]
    evaluations = len(obs)
    au, ou, asv, fsv = [], [], [], []
    for f in obs:
        if f[0] == "AU":
            au.append((unhex(f[1]), f[2], int(f[3]) if len(f) > 3 else None))
        elif f[0] == "OU":
            ou.append((unhex(f[1]), f[2], unhex(f[3]) if len(f) > 3 else None))
        elif f[0] in ("AS", "AM"):
            asv.append((f[0], int(f[1]), f[2]))
        elif f[0] in ("FS", "FM"):
            fsv.append((f[0], int(f[1]), f[2]))

    def bad(what, **kw):
        nonlocal nbad
        nbad += 1
        if nbad <= 4:
            p = ctx.violation("counterexample", dict(what=what, **kw), True)
            rewrite_with_replay_cmd(ctx, p)
    inv = {v: k for k, v in DOC_ACTIONS.items()}
    for (s, st, val) in au:
        low = go_lower(s)
        if st == "PANIC" or st == "ERR_MODIFIED":
            bad("Action.Unpack %s" % st, input_hex=s.hex())
        elif low is not None and low.decode("utf-8", "replace") in DOC_ACTIONS:
            want = DOC_ACTIONS[low.decode()]
            if st != "OK" or val != want:
                bad("a documented action name (in some letter case) does not parse to its kernel constant", input=s.decode("utf-8", "replace"),
                    input_hex=s.hex(), expected=want, actual="%s %s" % (st, val))
        elif st == "OK":
            bad("an undocumented name was accepted as an action", input=s.decode("utf-8", "replace"), input_hex=s.hex(), actual=val)
    lowops = {o.lower(): o for o in DOC_OPS}
    for (s, st, val) in ou:
        low = go_lower(s)
        if st == "PANIC":
            bad("Operation.Unpack panicked", input_hex=s.hex())
        elif low is not None and low.decode("utf-8", "replace") in lowops:
            if st != "OK" or val != lowops[low.decode()].encode():
                bad("a documented operation name (in some letter case) does not parse to its constant", input_hex=s.hex(), actual="%s %s" % (st, val))
        elif st == "OK":
            bad("an undocumented name was accepted as an operation", input_hex=s.hex(), actual=str(val))
    for (k, v, txt) in asv:
        if v in inv and txt != "ERR" and unhex(txt) != inv[v].encode():
            bad("the printed form of a named action is not its documented name", value=v, actual=str(unhex(txt)))
    # ---- model correspondence inside Coq
    ncorr = 0
    if gen:
        body = CASE_PREAMBLE.replace("From Seccomp Require Import Result Policy Tables Text.", "From Seccomp Require Import Result Policy Tables Text.")
        body += "Definition au_cases : list (string * option N) := [\n" + ";\n".join(
            " (%s, %s)" % (coq_str(s), ("Some %d" % val) if st == "OK" else "None") for (s, st, val) in au if go_lower(s) is not None and s.isascii()) + "\n].\n"
        body += "Definition au_mismatches := Eval vm_compute in filter (fun c => negb (match action_unpack action_names (fst c), snd c with Some a, Some b => a =? b | None, None => true | _, _ => false end)) au_cases.\nPrint au_mismatches.\n"
        body += "Definition ou_cases : list (string * option string) := [\n" + ";\n".join(
            " (%s, %s)" % (coq_str(s), ("Some %s" % coq_str(val)) if st == "OK" else "None") for (s, st, val) in ou if s.isascii()) + "\n].\n"
        body += "Definition ou_mismatches := Eval vm_compute in filter (fun c => negb (match operation_unpack operations (fst c), snd c with Some a, Some b => String.eqb a b | None, None => true | _, _ => false end)) ou_cases.\nPrint ou_mismatches.\n"
        body += "Definition as_cases : list (N * string) := [\n" + ";\n".join(" (%d, %s)" % (v, coq_str(unhex(t))) for (k, v, t) in asv if t != "ERR") + "\n].\n"
        body += "Definition as_mismatches := Eval vm_compute in filter (fun c => negb (String.eqb (action_string action_names (fst c)) (snd c))) as_cases.\nPrint as_mismatches.\n"
        body += "Definition fs_cases : list (N * string) := [\n" + ";\n".join(" (%d, %s)" % (v, coq_str(unhex(t))) for (k, v, t) in fsv if t != "ERR") + "\n].\n"
        body += "Definition fs_mismatches := Eval vm_compute in filter (fun c => negb (String.eqb (flag_string filter_flag_names (fst c)) (snd c))) fs_cases.\nPrint fs_mismatches.\n"
        okc, log = coq_eval(ctx, gen, "c14cases", body)
        if not okc:
            ctx.broken = (getattr(ctx, "broken", None) or "") + "\ncases file failed: " + log[-1500:]
        else:
            for ident in ("au_mismatches", "ou_mismatches", "as_mismatches", "fs_mismatches"):
                e, v = parse_printed_list_empty(log, ident)
                if not e:
                    p = ctx.violation("correspondence", dict(stream="text forms: model vs implementation (%s)" % ident, mismatches=(v or "")[:2000]), False)
                    rewrite_with_replay_cmd(ctx, p)
            ncorr = len(au) + len(ou) + len(asv) + len(fsv)
    # ---- (b) configuration path
    st = Stream(ctx)
    consts, arches_tbl = st.load_header()
    pg = PolicyGen(rng, consts, arches_tbl)
    npol = 120 if q else 1500
    plines, mlines, ylines, pols = [], [], [], {}
    unnamed_ids = set()
    for i in range(npol):
        kind = rng.choice(["names", "cond", "cond", "mixed", "mixed", "condlong", "single_cond", "degenerate"])
        an = rng.choice(PolicyGen.TABLE_ARCHES)
        pol = pg.policy(archname=an, kind=kind)
        # the text forms only exist for named actions
        pol["default"] = rng.choice(list(DOC_ACTIONS.values()))
        for g in pol["groups"]:
            g["action"] = rng.choice(list(DOC_ACTIONS.values()))
        if kind == "degenerate" and rng.random() < 0.5:
            pol["groups"] = [g for g in pol["groups"] if g["names"] or g["nwc"]] or [dict(action=DOC_ACTIONS["allow"], names=["read"], nwc=[])]
        elif kind == "degenerate" and rng.random() < 0.5:
            # groups that list nothing at all (what the profiler writes for a binary in which it finds no system call)
            pol["groups"] = [dict(action=g["action"], names=[], nwc=[]) for g in pol["groups"]]
        unnamed = False
        if rng.random() < 0.12 and pol["groups"]:
            # a group action that carries data bits (errno 38, trace 7, ...): it has no text form, so marshalling it may fail;
            # if it succeeds and the text reads back, the program must still be the in-memory policy's
            rng.choice(pol["groups"])["action"] = rng.choice([0x50000 | 38, 0x50000 | 13, 0x50000 | 4095, 0x7ff00000 | 7, 0x7ffc0000 | 1, 0x30000 | 5])
            unnamed = True
        le = rng.randint(0, 1)
        cid = "c%d" % i
        toks = PolicyGen.tokens(pol)
        pols[cid] = (pol, le, an)
        plines.append("P %s %d %s %s" % (cid, le, an, toks))
        mlines.append("M %s %d %s %s" % (cid, le, an, toks))
        if unnamed:
            unnamed_ids.add(cid)
            continue
        ylines.append("Y %s %d %s x%s" % (cid, le, an, yaml_of_policy(pol, rng).encode().hex()))
    if replay and replay.get("case"):
        plines = [replay["case"]]
        cid = replay["case"].split()[1]
        mlines = ["M" + replay["case"][1:]]
        ylines = [replay["yaml_line"]] if replay.get("yaml_line") else []
    r1 = ctx.run_harness(["compile"], "\n".join(plines) + "\n")
    mem = {}
    for ln in r1.stdout.splitlines():
        if ln.startswith("P "):
            mem[ln.split()[1]] = ln.split(" | ", 1)[1]
    r2 = ctx.run_harness(["config"], "\n".join(mlines + ylines) + "\n")
    nconf = 0
    for ln in r2.stdout.splitlines():
        f = ln.split(" ", 2)
        if f[0] == "M":
            parts = f[2].split(" ## ")
            m_, y_, j_ = parts[0][4:], parts[1][5:], parts[2][5:]
            nconf += 2
            for nm, val in (("yaml", y_), ("json", j_)):
                if f[1] in unnamed_ids or (replay and not val.startswith("OK")):
                    # no text form is promised for such a value: only a SILENT change of meaning is judged
                    if not (val.startswith("OK") and m_.startswith("OK") and val != m_):
                        continue
                if val != m_ and m_.startswith("OK"):
                    bad("a policy marshalled to %s and read back through the configuration path compiles to a different program" % nm.upper(),
                        case=[p for p in plines if p.split()[1] == f[1]][0], via=nm, in_memory=m_[:300], read_back=val[:300])
        elif f[0] == "Y":
            nconf += 1
            want = mem.get(f[1])
            if want is not None and want.startswith("OK") and f[2] != want:
                yl = [y for y in ylines if y.split()[1] == f[1]][0]
                bad("a policy written as YAML and loaded through the configuration path compiles to a different program than the equivalent in-memory policy",
                    case=[p for p in plines if p.split()[1] == f[1]][0], yaml_line=yl, yaml_text=unhex(yl.split()[4]).decode(), in_memory=want[:300], loaded=f[2][:300])
    evaluations += nconf
    ctx.coverage.update(dict(
        evaluations=evaluations, distinct_nontrivial=len(set(s for (s, st_, v) in au if st_ == "OK")) + len(set(s for (s, st_, v) in ou if st_ == "OK")) + len(pols),
        rule="strings: every documented action/operation name in random letter-case patterns and Unicode look-alikes, near-misses (prefix, suffix, blank, NUL, digits), random strings - offered to Action.Unpack and Operation.Unpack; String/MarshalText of named and unnamed values; all compared with the model evaluated by vm_compute over the regenerated name tables and judged against the documented constants. configuration: generated valid policies (all named actions, eight operations, indices 0..5, boundary 64-bit operands) (i) rendered as YAML text (mixed-case names, decimal/hex operands), (ii) marshalled with yaml.v2, (iii) with encoding/json, each read back through ucfg exactly as cmd/sandbox does, compiled and compared byte-wise with the in-memory policy's program; non-trivial = distinct accepted spellings + distinct policies round-tripped",
        traces_validated_against_impl=ncorr, config_round_trips=nconf, counterexamples=nbad,
        input_distribution=dict(strings=len(strings), accepted_actions=sum(1 for x in au if x[1] == "OK"), accepted_operations=sum(1 for x in ou if x[1] == "OK"),
                                policies=len(pols)),
        samples=[dict(input=s.decode("utf-8", "replace"), result=st_, value=v) for (s, st_, v) in au[:4]] + [ylines[0][:300] if ylines else ""],
    ))
    finish_with_proof_status(ctx, nbad, "C14 theorems over the regenerated name tables and struct tags")


# ------------------------------------------------------------------------------------------------ C19
C19_THEOREMS = ["C19_builds_everywhere", "C19_consts_are_uapi", "C19_enosys_38_where_tables", "C19_named_actions_are_action_names",
                "C19_same_program_everywhere", "C19_stubs_inert", "C19_stub_file_selection", "C19_no_table_no_filter", "C19_table_targets_resolve",
                "C19_byte_order_probe_is_right"]

UAPI = dict(ActionKillThread=0, ActionKillProcess=0x80000000, ActionTrap=0x30000, ActionErrno=0x50000, ActionTrace=0x7ff00000,
            ActionLog=0x7ffc0000, ActionAllow=0x7fff0000, ActionUserNotify=0x7fc00000, FilterFlagTSync=1, FilterFlagLog=2,
            errnoEPERM=1, prSetNoNewPrivs=38, seccompSetModeStrict=0, seccompSetModeFilter=1, x32SyscallMask=0x40000000)


def uapi_from_headers():
    """Re-read the values from the machine's kernel headers when present (the vendored OracleConsts.v came from the same files)."""
    out = {}
    names = dict(SECCOMP_RET_KILL_THREAD="ActionKillThread", SECCOMP_RET_KILL_PROCESS="ActionKillProcess", SECCOMP_RET_TRAP="ActionTrap",
                 SECCOMP_RET_ERRNO="ActionErrno", SECCOMP_RET_TRACE="ActionTrace", SECCOMP_RET_LOG="ActionLog", SECCOMP_RET_ALLOW="ActionAllow",
                 SECCOMP_RET_USER_NOTIF="ActionUserNotify", SECCOMP_SET_MODE_STRICT="seccompSetModeStrict", SECCOMP_SET_MODE_FILTER="seccompSetModeFilter",
                 PR_SET_NO_NEW_PRIVS="prSetNoNewPrivs", EPERM="errnoEPERM")
    for path in ("/usr/include/linux/seccomp.h", "/usr/include/linux/prctl.h", "/usr/include/asm-generic/errno-base.h"):
        try:
            text = open(path).read()
        except OSError:
            continue
        for m in re.finditer(r"#define\s+(\w+)\s+(0x[0-9a-fA-F]+|\d+)U?\b", text):
            if m.group(1) in names:
                out[names[m.group(1)]] = int(m.group(2), 0)
        m = re.search(r"#define\s+SECCOMP_FILTER_FLAG_TSYNC\s+\(1UL << (\d+)\)", text)
        if m:
            out["FilterFlagTSync"] = 1 << int(m.group(1))
        m = re.search(r"#define\s+SECCOMP_FILTER_FLAG_LOG\s+\(1UL << (\d+)\)", text)
        if m:
            out["FilterFlagLog"] = 1 << int(m.group(1))
    return out


def run_tableless(ctx):
    """Builds harness/tableless for js/wasm and linux/386 against the repository and runs both.
    Returns dict(wasm=[(i, result)], control=[...]) or dict(skipped=reason)."""
    import shutil
    goroot = subprocess.run(["go", "env", "GOROOT"], capture_output=True, text=True, env=GOENV).stdout.strip()
    helper = os.path.join(goroot, "lib", "wasm", "go_js_wasm_exec")
    if not os.path.exists(helper):
        helper = os.path.join(goroot, "misc", "wasm", "go_js_wasm_exec")
    if not os.path.exists(helper) or not shutil.which("node"):
        return dict(skipped="node or go_js_wasm_exec is not available")
    d = os.path.join(ctx.scratch, "tableless")
    os.makedirs(d, exist_ok=True)
    shutil.copy(os.path.join(VERIF, "harness", "tableless", "main.go"), d)
    with open(os.path.join(VERIF, "harness", "go.mod.tmpl")) as f:
        mod = f.read().replace("@REPO@", REPO).replace("module verif/harness", "module verif/tableless")
    with open(os.path.join(d, "go.mod"), "w") as f:
        f.write(mod)
    shutil.copy(os.path.join(REPO, "go.sum"), d)
    out = {}
    for key, env, runner in (("wasm", dict(GOENV, GOOS="js", GOARCH="wasm"), [helper]), ("control", dict(GOENV, GOOS="linux", GOARCH="386", CGO_ENABLED="0"), [])):
        exe = os.path.join(d, "tableless-" + key)
        r = subprocess.run(["go", "build", "-o", exe, "."], cwd=d, env=env, capture_output=True, text=True, timeout=600)
        if r.returncode != 0:
            return dict(skipped="harness/tableless does not build for %s: %s" % (key, (r.stdout + r.stderr)[-400:]))
        r = subprocess.run(runner + [exe], cwd=d, env=dict(env, PATH=os.environ.get("PATH", "")), capture_output=True, text=True, timeout=300)
        lines = [ln.split(" ", 2) for ln in r.stdout.splitlines() if ln.startswith("T ")]
        n = [ln for ln in r.stdout.splitlines() if ln.startswith("N ")]
        if r.returncode != 0 or not n or int(n[0].split()[1]) != len(lines):
            return dict(skipped="harness/tableless (%s) did not run to the end: rc %d %s" % (key, r.returncode, r.stderr[-300:]))
        out[key] = [(int(f[1]), f[2]) for f in lines]
    return out


def check_C19(ctx, replay=None):
    gen, ok = setup(ctx, "C19.v", C19_THEOREMS)
    if not ok:
        return
    nbad = 0
    q = ctx.tier == "quick"

    def bad(what, **kw):
        nonlocal nbad
        nbad += 1
        if nbad <= 4:
            p = ctx.violation("counterexample", dict(what=what, **kw), True)
            rewrite_with_replay_cmd(ctx, p)
    hdr = uapi_from_headers()
    for k, v in hdr.items():
        if UAPI.get(k) != v:
            ctx.notes.append("kernel header value of %s (%d) differs from the vendored one (%s)" % (k, v, UAPI.get(k)))
    targets = []
    if gen:
        text = open(os.path.join(gen, "GenConsts.v")).read()
        for m in re.finditer(r'\{\| tc_goos := "(\w+)"%string; tc_goarch := "(\w+)"%string; tc_checks := (true|false);(.*?)tc_funcs := \[(.*?)\];\s*tc_files := \[(.*?)\];\s*tc_bodies := \[(.*?)\] \|\}', text, re.S):
            vals = {k: int(v) for k, v in re.findall(r"tc_(\w+) := (\d+)", m.group(4))}
            targets.append(dict(goos=m.group(1), goarch=m.group(2), checks=m.group(3) == "true", vals=vals,
                                funcs=re.findall(r'"(\w+)"', m.group(5)), files=re.findall(r'"([\w.]+)"', m.group(6)),
                                bodies={b[0]: (int(b[1]), b[2]) for b in re.findall(r'\("(\w+)"%string, (\d+)%nat, "([^"]*)"%string\)', m.group(7))}))
    # direct search over every target, against the property text
    for t in targets:
        tname = "%s/%s" % (t["goos"], t["goarch"])
        if not t["checks"]:
            bad("the package does not type-check for this target", target=tname)
            continue
        for k, want in UAPI.items():
            if t["vals"].get(k) != want:
                bad("a constant differs from the kernel's UAPI value on this target", target=tname, constant=k, expected=want, actual=t["vals"].get(k))
        linux = t["goos"] in ("linux", "android")
        want_enosys = 89 if linux and t["goarch"].startswith("mips") else 38
        if t["vals"].get("errnoENOSYS") != want_enosys:
            bad("ENOSYS differs from the kernel's value for this CPU", target=tname, expected=want_enosys, actual=t["vals"].get("errnoENOSYS"))
        if linux != ("seccomp_linux.go" in t["files"]) or linux == ("seccomp_unsupported.go" in t["files"]):
            bad("wrong loader file selected for this target", target=tname, files=t["files"])
    # the stubs, in the package as built for each non-Linux target: no call expression, Supported false; and the layout
    # of seccomp_data (argument offset 16, 8-byte arguments, 4-byte words) is the same on every target
    for t in targets:
        tname = "%s/%s" % (t["goos"], t["goarch"])
        if not t["checks"]:
            continue
        if t["goos"] not in ("linux", "android"):
            for fn in ("Supported", "SetNoNewPrivs", "LoadFilter"):
                b = t["bodies"].get(fn)
                if b is None:
                    bad("a loader function is missing from the package built for this non-Linux target", target=tname, function=fn)
                elif b[0] != 0:
                    bad("on a non-Linux target a loader function performs calls instead of being an inert stub", target=tname, function=fn, call_expressions=b[0])
                elif fn == "Supported" and b[1] != "false":
                    bad("the Supported stub of a non-Linux target does not report false", target=tname, returns=b[1])
        for k, want in (("argumentOffset", 16), ("sizeOfUint64", 8), ("sizeOfUint32", 4)):
            if k in t["vals"] and t["vals"][k] != want:
                bad("the layout of seccomp_data differs on this target (a policy with argument conditions compiles to another program here)",
                    target=tname, constant=k, expected=want, actual=t["vals"][k])
    # targets without syscall tables: the lookup Policy.Assemble performs (arch.GetInfo of the GOARCH) must fail
    goarches = sorted(set(t["goarch"] for t in targets))
    if goarches:
        rg = ctx.run_harness(["getinfo"], "\n".join("x" + g.encode().hex() for g in goarches) + "\n")
        for ln in rg.stdout.splitlines():
            f = ln.split()
            g = unhex(f[0]).decode()
            if g not in ("386", "amd64", "arm", "arm64") and f[1] == "OK":
                bad("a GOARCH without syscall tables resolves to a table, so compiling on that target produces a filter (for the wrong ABI) instead of an unsupported-architecture error",
                    goarch=g, input_hex=g.encode().hex(), resolves_to=f[2] if len(f) > 2 else None)
            if g in ("386", "amd64", "arm", "arm64") and f[1] != "OK":
                bad("a GOARCH with a syscall table does not resolve", goarch=g, input_hex=g.encode().hex())
    # ... and the compilation itself, RUN on a target without tables: js/wasm executed by node (the only table-less
    # target this host can run), with 386 as the control where the same policies must compile
    tl = run_tableless(ctx)
    if tl.get("skipped"):
        ctx.notes.append("table-less run-time step skipped: " + tl["skipped"])
    else:
        for (i, res) in tl["wasm"]:
            if res != "ERR":
                bad("on a target without syscall tables (js/wasm, run with node) Policy.Assemble does not fail with an error: policy #%d of harness/tableless gives %s" % (i, res),
                    target="js/wasm", policy_index=i, result=res)
                break
        for (i, res) in tl["control"]:
            if not res.startswith("OK"):
                bad("the control build (linux/386) does not compile policy #%d of harness/tableless: %s" % (i, res), target="linux/386", policy_index=i, result=res)
                break
    # a policy compiles to the same program wherever it is compiled: the same policies through a linux/386 build and the
    # host build, each with the byte order the library determines for itself, against the extracted model
    from corechecks import policy_stream, report_case_failures
    cross = {}
    for ga in ("386", None):
        res = policy_stream(ctx, "C19", ["single_cond", "cond", "names", "mixed"], 60 if q else 600, 10, goarch=ga, native_endian=True, salt=19,
                            replay=replay if replay and replay.get("case") and replay.get("goarch") == (ga or "host") else None)
        if replay and replay.get("case") and replay.get("goarch") != (ga or "host"):
            continue
        if res is None:
            continue
        before = len(ctx.violations)
        nd, nb = report_case_failures(ctx, res["cases"], "policies compiled by a %s build with the byte order the library determines itself (C19)" % ("linux/386" if ga else "host"),
                                      describe=lambda cid: dict(res["meta"].get(cid) or {}, goarch=ga or "host"))
        for path, _ in ctx.violations[before:]:
            with open(path) as f:
                body = json.load(f)
            body["goarch"] = ga or "host"
            with open(path, "w") as f:
                json.dump(body, f, indent=1, sort_keys=True)
                f.write("\n")
        nbad += nb
        cross[ga or "host"] = int(res["summary"]["cases"])
    if not replay or replay.get("ambient"):
        from corechecks import ambient_passes
        nv = len(ctx.violations)
        ambient_passes(ctx, "C19", ["single_cond", "names", "mixed"], replay=replay if replay and replay.get("ambient") else None)
        nbad += sum(1 for _, nf in ctx.violations[nv:] if not nf)
    # translator cross-check: the running (host) build's constants vs the regenerated record of the host target
    r = ctx.run_harness(["consts"], "")
    host = {}
    for ln in r.stdout.splitlines():
        f = ln.split()
        if len(f) == 2 and f[1].isdigit():
            host[f[0]] = int(f[1])
    goos = subprocess.run(["go", "env", "GOOS"], capture_output=True, text=True, env=GOENV).stdout.strip()
    goarch = subprocess.run(["go", "env", "GOARCH"], capture_output=True, text=True, env=GOENV).stdout.strip()
    ncorr = 0
    for t in targets:
        if t["goos"] == goos and t["goarch"] == goarch:
            for k, v in t["vals"].items():
                if k in host:
                    ncorr += 1
                    if host[k] != v:
                        p = ctx.violation("correspondence", dict(stream="constants of the running build vs the regenerated record of %s/%s" % (goos, goarch),
                                                                 constant=k, translator=v, runtime=host[k]), False)
                        rewrite_with_replay_cmd(ctx, p)
    # builds: representative targets in the quick tier, every target in the thorough tier
    reps = [("linux", "amd64"), ("linux", "arm64"), ("linux", "mips"), ("darwin", "arm64"), ("windows", "amd64"), ("linux", "riscv64")]
    todo = reps if q else [(t["goos"], t["goarch"]) for t in targets]
    built = 0
    import concurrent.futures

    skipped = []

    def build_one(ga):
        env = dict(GOENV, GOOS=ga[0], GOARCH=ga[1], CGO_ENABLED="0")
        pkgs = [".", "./arch/...", "./internal/..."]
        # the library packages only: linking the commands is no property of the library
        r1 = subprocess.run(["go", "build"] + pkgs, cwd=REPO, env=env, capture_output=True, text=True, timeout=900)
        if r1.returncode != 0 and "requires external (cgo) linking" in r1.stderr:
            # android / ios: this toolchain refuses to build without cgo whatever the package; type-check with vet instead
            r1 = subprocess.run(["go", "vet"] + pkgs, cwd=REPO, env=env, capture_output=True, text=True, timeout=900)
            if r1.returncode != 0 and "requires external (cgo) linking" in r1.stderr:
                skipped.append("%s/%s" % ga)
                return ga, 0, "", 0
        r2 = subprocess.run(["go", "vet", "."], cwd=REPO, env=env, capture_output=True, text=True, timeout=900) if not q else None
        if r2 is not None and r2.returncode != 0 and "requires external (cgo) linking" in r2.stderr:
            r2 = None
        return ga, r1.returncode, (r1.stderr[-600:] + (r2.stderr[-600:] if r2 is not None and r2.returncode != 0 else "")), (r2.returncode if r2 is not None else 0)
    with concurrent.futures.ThreadPoolExecutor(max_workers=8) as ex:
        for ga, rc, err, rc2 in ex.map(build_one, todo):
            built += 1
            if rc != 0 or rc2 != 0:
                bad("the module does not build (or vet) for this target", target="%s/%s" % ga, log=err)
    ctx.coverage.update(dict(
        evaluations=len(targets) * (len(UAPI) + 3) + built, distinct_nontrivial=len(targets),
        rule="every GOOS/GOARCH pair of `go tool dist list` (%d): package seccomp type-checked under that build context by the translator, its constants as go/constant evaluates them compared with the kernel UAPI values (vendored, and re-read from /usr/include when present), loader file selection and stub bodies inspected; go build for %s; the running build's constants compared with the regenerated host record; generated policies compiled by a linux/386 build and by the host build, byte order as the library determines it, compared instruction by instruction with the extracted model; 84 policies (empty groups, names, conditions, every default action) compiled through the public API in a js/wasm build run by node (every one must fail) and in a 386 build (every one must compile); non-trivial = targets judged" % (len(targets), "six representative targets" if q else "every target (plus go vet)"),
        traces_validated_against_impl=ncorr, programs_compared_per_build=cross, tableless_runtime=dict(skipped=tl.get("skipped")) if tl.get("skipped") else dict(js_wasm_policies=len(tl["wasm"]), control_386_policies=len(tl["control"])), targets_built=built - len(skipped), targets_not_buildable_without_cgo=skipped, counterexamples=nbad, exhaustive=True,
        input_distribution=dict(targets=len(targets), linux=sum(1 for t in targets if t["goos"] in ("linux", "android")),
                                with_tables=sum(1 for t in targets if t["goarch"] in ("386", "amd64", "arm", "arm64")),
                                enosys_values=sorted(set(t["vals"].get("errnoENOSYS") for t in targets))),
        samples=[dict(target="%s/%s" % (t["goos"], t["goarch"]), ENOSYS=t["vals"].get("errnoENOSYS"), files=t["files"]) for t in targets[:3]],
    ))
    finish_with_proof_status(ctx, nbad, "C19 theorems over the regenerated per-target constants and stubs")


# ------------------------------------------------------------------------------------------------ C13
C13_THEOREMS = ["C13_invert_order_independent", "C13_unpack_order_independent", "C13_label_sweep_order_independent", "C13_flag_strings",
                "C13_cached_arch_same_program", "C13_library_reads_no_ambient_state"]


def check_C13(ctx, replay=None):
    rng = random.Random(ctx.seed * 1000003 + 13)
    gen, ok = setup(ctx, "C13.v", C13_THEOREMS)
    if not ok:
        return
    nbad = 0
    q = ctx.tier == "quick"

    def bad(what, **kw):
        nonlocal nbad
        nbad += 1
        if nbad <= 4:
            p = ctx.violation("counterexample", dict(what=what, **kw), True)
            rewrite_with_replay_cmd(ctx, p)
    race, err = ctx.build_harness(race=True)
    if not race:
        ctx.violation("broken-obligation", dict(what="the harness does not build with -race", log=err[-2000:]), False)
        return
    st = Stream(ctx)
    consts, arches_tbl = st.load_header()
    pg = PolicyGen(rng, consts, arches_tbl)
    lines = []
    npol = 150 if q else 2500
    for i in range(npol):
        kind = rng.choice(["names", "cond", "mixed", "mixed", "mixed_long", "condlong", "names_long", "degenerate", "pair_cond", "pair_cond", "value_list"])
        an = rng.choice(PolicyGen.TABLE_ARCHES + ["X32"])
        defect = rng.choice(PolicyGen.DEFECTS) if rng.random() < 0.1 else None
        pol = pg.policy(archname=an, kind=kind, defect=defect)
        le = rng.randint(0, 1)
        from corechecks import host_goarch
        if ambient.EXPECTED_NATIVE.get(host_goarch()) == an and rng.random() < 0.4:
            an = "NATIVE"       # the architecture is left to the library (the build's own)
        lines.append("P d%d %d %s %s" % (i, le, an, PolicyGen.tokens(pol)))
        if not defect and pol["groups"] and rng.random() < 0.1:
            # policies that differ only in one group's (unnamed) action: none may influence the other
            for j, sib in enumerate(pg.siblings(pol)):
                lines.append("P d%ds%d %d %s %s" % (i, j, le, an, PolicyGen.tokens(sib)))
    # a refused policy is an input like any other: compiling it must leave it as it was. Every class of defect a few times
    # (the operation outside the eight constants more often - it has six spellings, wrong case among them), on policies with
    # conditions, so that a validation that "repairs" what it reads in the caller's value is seen
    for j, defect in enumerate(PolicyGen.DEFECTS * (2 if q else 8) + ["badop", "argidx_and_badop"] * (5 if q else 20)):
        pol = pg.policy(archname=rng.choice(PolicyGen.TABLE_ARCHES + ["X32"]), kind=rng.choice(["cond", "mixed", "pair_cond"]), defect=defect)
        lines.append("P x%d %d %s %s" % (j, rng.randint(0, 1), pol["arch"], PolicyGen.tokens(pol)))
    if replay and replay.get("case"):
        lines = [replay["case"]] if not replay.get("cases") else list(replay["cases"])
    inp = "\n".join(lines) + "\n"
    runs = []
    env = dict(GOENV, GORACE="halt_on_error=0 exitcode=66")
    r = ctx.run_harness(["determ"], inp, harness=race, env=env, timeout=1800)
    races = r.stderr.count("WARNING: DATA RACE")
    if races or r.returncode == 66:
        bad("the race detector reported a data race during concurrent compilations / text conversions", reports=races, report=r.stderr[:3000], case=lines[0])
    elif r.returncode != 0:
        raise RuntimeError("determ (race build) failed: " + r.stderr[-1500:])
    runs.append(r.stdout)
    nproc = 2 if q else 6
    orders = []
    for k in range(nproc):
        # the same policies in another ORDER (reversed, then shuffled): what a policy compiles to must not depend on
        # which policies the process compiled before
        other = list(reversed(lines)) if k == 0 else rng.sample(lines, len(lines))
        orders.append(other)
        r2 = ctx.run_harness(["determ"], "\n".join(other) + "\n")
        runs.append(r2.stdout)
    # and in hostile surroundings (lib/ambient.py): every environment variable the sources could ask for is set, the
    # kernel reports another machine and release - the programs are functions of the policy value alone
    hostile = [(ambient.noise_env(GOENV), None)] + [(ambient.noise_env(GOENV), pre) for pre in ambient.personality_prefixes()[:1 if q else 2]]
    for (henv, pre) in hostile:
        orders.append(lines)
        r3 = ctx.run_harness(["determ"], inp, env=henv, prefix=pre, timeout=1800)
        if r3.returncode != 0:
            for ln in lines[:300]:
                r4 = ctx.run_harness(["determ"], ln + "\n", env=henv, prefix=pre, timeout=120)
                if r4.returncode != 0:
                    bad("a process in another environment dies while compiling this policy", case=ln, stderr=r4.stderr[-1500:], prefix=pre or [],
                        environment={k: v for k, v in henv.items() if os.environ.get(k) != v})
                    break
            else:
                bad("a process in another environment dies while compiling the policies of this run", stderr=r3.stderr[-1500:], prefix=pre or [],
                    environment={k: v for k, v in henv.items() if os.environ.get(k) != v})
        runs.append(r3.stdout)
    first = [ln.split() for ln in runs[0].splitlines() if ln.startswith("D ")]
    byid = {f[1]: f for f in first}
    line_of = {ln.split()[1]: ln for ln in lines}
    for f in first:
        if f[2] != "same":
            bad("repeated or concurrent compilations of equal policies gave different results (or a text form changed)", case=line_of.get(f[1]))
        if f[3] != "intact":
            bad("compiling modified the caller's policy", case=line_of.get(f[1]))
    for k, out in enumerate(runs[1:]):
        for ln in out.splitlines():
            f = ln.split()
            if f and f[0] == "D" and f[1] in byid and (f[4] != byid[f[1]][4] or f[5] != byid[f[1]][5]):
                o = orders[k]
                pos = next((n for n, ln2 in enumerate(o) if ln2.split()[1] == f[1]), 0)
                hk = k - nproc
                bad("a process that compiled the same policies in another order compiled this one to a different program (or printed a value differently)" if hk < 0 else
                    "a process in another environment (variables set: see environment; command prefix: see prefix) compiled this policy to a different program (or printed a value differently)",
                    case=line_of.get(f[1]), first=byid[f[1]][4:], other=f[4:], cases=o[max(0, pos - 40):pos + 1] if hk < 0 else [line_of.get(f[1])],
                    **({} if hk < 0 else dict(prefix=hostile[hk][1] or [], environment={k2: v2 for k2, v2 in hostile[hk][0].items() if os.environ.get(k2) != v2})))
    # first uses of the library happening concurrently, in fresh processes (race build): lazy initialisation and
    # "remember what was asked" caches are exercised before anything has warmed them up
    nfirst = 6 if q else 40
    first_ok = 0
    for v in range(nfirst):
        rf = ctx.run_harness(["firstuse", str(v + ctx.seed * 100)], "", harness=race, env=env, timeout=300)
        fr = rf.stderr.count("WARNING: DATA RACE")
        if fr or rf.returncode == 66:
            races += fr or 1
            bad("the race detector reported a data race when the first uses of the library (architecture lookup under a mixed-case spelling, compilation with argument conditions, text conversion) happen concurrently",
                reports=fr, report=rf.stderr[:3000], variant=v + ctx.seed * 100)
            break
        if rf.returncode != 0:
            raise RuntimeError("firstuse (race build) failed: " + rf.stderr[-1500:])
        if " ok" not in rf.stdout:
            bad("concurrent first uses of the library gave results that differ from a sequential repeat: " + rf.stdout[:600], variant=v + ctx.seed * 100)
            break
        first_ok += 1
    if not replay or replay.get("ambient"):
        # what a policy compiles to is a function of the value and the build: 64- and 32-bit builds in hostile
        # surroundings against the extracted model
        from corechecks import ambient_passes
        nv = len(ctx.violations)
        ambient_passes(ctx, "C13", ["names", "cond", "mixed"], replay=replay if replay and replay.get("ambient") else None)
        nbad += sum(1 for _, nf in ctx.violations[nv:] if not nf)
    # the text forms of all flag values in fresh processes
    texts = set()
    for _ in range(4 if q else 20):
        rt = ctx.run_harness(["text"], "\n".join("FS %d" % v for v in range(8)) + "\n")
        texts.add(rt.stdout)
    if len(texts) != 1:
        bad("FilterFlag.String is not a function of the value (differs between processes)", distinct=len(texts), outputs=sorted(texts)[:2])
    ctx.coverage.update(dict(
        evaluations=len(first) * (3 + 16) * (1 + nproc), distinct_nontrivial=len(set(f[4] for f in first)),
        rule="generated policies of every kind (incl. 10%% defective, x32): each compiled 3 times on the same value and from 16 goroutines on by-value copies sharing its slices, concurrently with architecture lookups and action/flag text conversions, in a harness built with -race; the policy deep-compared with a fresh parse afterwards; the same policies compiled in %d further processes in other orders (reversed, shuffled) and compared by program hash - among them pairs that differ only in one group's unnamed action; FilterFlag.String of 0..7 across fresh processes; fresh race-built processes whose FIRST library operations (lookups under mixed-case spellings, compilations with argument conditions, text conversions) run in 16 goroutines released together and are compared with a sequential repeat; non-trivial = distinct programs compared" % nproc,
        processes=1 + nproc + nfirst, race_reports=races, concurrent_first_use_processes=first_ok, counterexamples=nbad,
        input_distribution=dict(policies=len(first), accepted=sum(1 for f in first if True)),
        samples=[lines[0][:300]],
    ))
    finish_with_proof_status(ctx, nbad, "C13 theorems (map-order independence over the regenerated tables)")


CHECKS.update({"C14": check_C14, "C19": check_C19, "C13": check_C13})
