"""C15: the sandbox command runs its target only under the loaded policy.

Per run: (1) coq/properties/C15.v is compiled against the regenerated skeleton of cmd/sandbox/main.go
(SandboxInst.v: for every outcome oracle the interpretation of main() equals the reference behaviour) and of
LoadFilter (LoaderInst.v); (2) the REAL sandbox binary, built from the repository's working tree, is run on policy
files that are missing / empty / malformed / of the wrong type / naming unknown syscalls, actions, operations /
with duplicate names / too large for the kernel / a directory, without a target argument, with -no-new-privs=false
as an unprivileged user, and on seeded VALID policies; the target is a separate static program that appends a line
to a marker file (proof that it ran) and issues raw probe system calls with chosen 64-bit arguments.
Judged against the property text: invalid => exit status != 0 and no marker; valid => marker, and every probe
outcome equals the extracted `decide` of the policy the file denotes. Nothing is decided by message texts."""
import json

import ambient
import os
import random
import shutil
import subprocess

from common import REPO, VERIF, GOENV
from corechecks import Stream, rewrite_with_replay_cmd, finish_with_proof_status
from gencases import PolicyGen, M64
import kernelchecks as K

C15_THEOREMS = ["C15_skeleton_is_reference", "C15_exec_only_after_load", "C15_failure_exits_nonzero_without_target",
                "C15_run_failure_exits_nonzero", "C15_success_runs_target", "C15_never_stuck", "C15_filter_requests_tsync",
                "C15_flags_from_command_line", "C15_target_sees_policy", "C15_nonvacuous",
                "C15_command_consults_only_flags_and_file", "C15_command_flags"]

ACTION_NAMES = {K.ALLOW: "allow", K.LOG: "log", K.ERRNO: "errno", K.TRACE: "trace", K.TRAP: "trap", K.KILLP: "kill_process",
                K.KILLT: "kill_thread"}
OP_NAMES = {"Eq": "Equal", "Ne": "NotEqual", "Gt": "GreaterThan", "Lt": "LessThan", "Ge": "GreaterOrEqual",
            "Le": "LessOrEqual", "Set": "BitsSet", "NSet": "BitsNotSet"}
NOBODY = 65534


# ------------------------------------------------------------------------------------------------ YAML
def render_yaml(pol, action_text=None, op_text=None):
    """The policy as a file for `sandbox -policy`. action_text / op_text override the rendering (invalid files)."""
    at = action_text or (lambda a: ACTION_NAMES[a])
    ot = op_text or (lambda o: OP_NAMES[o])
    out = ["seccomp:", "  default_action: %s" % at(pol["default"]), "  syscalls:"]
    for g in pol["groups"]:
        out.append("  - action: %s" % at(g["action"]))
        if g["names"]:
            out.append("    names:")
            out += ["    - %s" % n for n in g["names"]]
        if g["nwc"]:
            out.append("    names_with_args:")
            for w in g["nwc"]:
                out.append("    - name: %s" % w["name"])
                out.append("      arguments:")
                for (a, o, v) in w["conds"]:
                    out += ["      - argument: %d" % a, "        operation: %s" % ot(o), "        value: %d" % v]
    return "\n".join(out) + "\n"


def render_json(pol):
    """The same policy as JSON text (what json.Marshal of the policy gives; JSON is a subset of YAML)."""
    groups = []
    for g in pol["groups"]:
        d = {"action": ACTION_NAMES[g["action"]]}
        if g["names"]:
            d["names"] = list(g["names"])
        if g["nwc"]:
            d["names_with_args"] = [{"name": w["name"], "arguments": [{"argument": a, "operation": OP_NAMES[o], "value": v} for (a, o, v) in w["conds"]]}
                                    for w in g["nwc"]]
        groups.append(d)
    return json.dumps({"seccomp": {"default_action": ACTION_NAMES[pol["default"]], "syscalls": groups}}, indent=1) + "\n"


def case_variant(rng, names):
    """Names are documented to be case-insensitive: render each occurrence in its documented, lower or upper spelling."""
    def f(key):
        t = names[key]
        r = rng.random()
        return t if r < 0.6 else (t.lower() if r < 0.8 else t.upper())
    return f


class NamedGen(K.EnforceGen):
    """EnforceGen restricted to what a policy FILE can say: named actions only."""

    def action(self, allow_hard=True):
        rng = self.rng
        r = rng.random()
        if r < 0.5:
            return K.ERRNO
        if r < 0.62:
            return rng.choice([K.ALLOW, K.LOG])
        if r < 0.72:
            return K.TRACE
        if allow_hard and self.hard:
            return rng.choice([K.KILLP, K.KILLP, K.TRAP])
        return K.ERRNO

    def policy(self, kind=None):
        pol = super().policy(kind)
        for g in pol["groups"]:
            if g["action"] not in ACTION_NAMES:
                g["action"] = K.ERRNO
        return pol


# ------------------------------------------------------------------------------------------------ running the command
class Box:
    def __init__(self, ctx):
        self.ctx = ctx
        self.dir = os.path.join(ctx.scratch, "box")
        os.makedirs(self.dir, exist_ok=True)
        os.chmod(ctx.scratch, 0o755)
        os.chmod(self.dir, 0o777)
        self.n = 0

    def build(self):
        self.sandbox = os.path.join(self.dir, "sandbox")
        r = subprocess.run(["go", "build", "-o", self.sandbox, "./cmd/sandbox"], cwd=REPO, env=GOENV, capture_output=True, text=True, timeout=600)
        if r.returncode != 0:
            return "building cmd/sandbox failed:\n" + r.stdout + r.stderr
        tdir = os.path.join(self.dir, "probetarget-src")
        os.makedirs(tdir, exist_ok=True)
        shutil.copy(os.path.join(VERIF, "harness", "probetarget", "main.go"), tdir)
        with open(os.path.join(tdir, "go.mod"), "w") as f:
            f.write("module probetarget\n\ngo 1.18\n")
        self.target = os.path.join(self.dir, "probetarget")
        r = subprocess.run(["go", "build", "-o", self.target, "."], cwd=tdir, env=dict(GOENV, CGO_ENABLED="0"), capture_output=True, text=True, timeout=600)
        if r.returncode != 0:
            return "building the probe target failed:\n" + r.stdout + r.stderr
        os.chmod(self.sandbox, 0o755)
        os.chmod(self.target, 0o755)
        # a valid policy that allows everything: what every path-like environment variable points to in hostile runs
        self.decoy = os.path.join(self.dir, "decoy.yml")
        with open(self.decoy, "w") as f:
            f.write("seccomp:\n  default_action: allow\n  syscalls:\n  - action: allow\n    names:\n    - getpid\n")
        os.chmod(self.decoy, 0o644)
        return None

    def run(self, case):
        """case: dict(file=('text', str) | ('missing',) | ('dir',), nnp=None|False|True, uid, target='probe'|'none'|'absent',
        probes=[(nr, a0..a5)]). Returns dict(exit, marker_lines, out lines, stderr)."""
        self.n += 1
        base = os.path.join(self.dir, "c%d" % self.n)
        pf = base + case.get("ext", ".yml")
        kind = case["file"][0]
        if kind == "text":
            with open(pf, "w") as f:
                f.write(case["file"][1])
            os.chmod(pf, 0o644)
        elif kind == "dir":
            os.makedirs(pf, exist_ok=True)
        beside = None
        if kind == "beside":
            # a RELATIVE name that does not exist in the working directory (a fresh empty one), while a valid policy that
            # allows everything lies under that name next to the sandbox executable (and in $HOME, $TMPDIR and /)
            rel = case["file"][1]
            beside = [os.path.join(d0, rel) for d0 in (self.dir, os.path.join(self.dir, "home"), os.path.join(self.dir, "tmp"))]
            for b in beside:
                os.makedirs(os.path.dirname(b), exist_ok=True)
                shutil.copy(self.decoy, b)
                os.chmod(b, 0o644)
        marker = base + ".marker"
        probes = base + ".probes"
        with open(probes, "w") as f:
            for p in case.get("probes", []):
                f.write(" ".join(str(x) for x in p) + "\n")
        os.chmod(probes, 0o644)
        args = [self.sandbox, "-policy", pf]
        cwd = self.dir
        ddir = None
        if case.get("cwd_default") and kind == "text" and case.get("ext", ".yml") == ".yml":
            # the file is ./seccomp.yml (the flag's default value) in a directory of its own
            ddir = base + ".d"
            os.makedirs(ddir, exist_ok=True)
            os.chmod(ddir, 0o755)
            shutil.copy(pf, os.path.join(ddir, "seccomp.yml"))
            os.chmod(os.path.join(ddir, "seccomp.yml"), 0o644)
            cwd = ddir
            args = [self.sandbox] if case["cwd_default"] == "noflag" else [self.sandbox, "-policy", "seccomp.yml"]
        if beside:
            ddir = base + ".d"
            os.makedirs(ddir, exist_ok=True)
            os.chmod(ddir, 0o755)
            cwd = ddir
            args = [self.sandbox] if case["file"][1] == "seccomp.yml" and case.get("cwd_default") == "noflag" else [self.sandbox, "-policy", case["file"][1]]
        if case.get("nnp") is not None:
            args.append("-no-new-privs=%s" % ("true" if case["nnp"] else "false"))
        if case.get("target", "probe") == "probe":
            args += [self.target, marker, probes] + list(case.get("extra_args", []))
        elif case["target"] == "absent":
            args += [os.path.join(self.dir, "no-such-program"), marker, probes]
        opf = None
        if case.get("outer"):
            # the whole command runs inside another sandbox command whose (valid) policy is case["outer"]
            opf = base + ".outer.yml"
            with open(opf, "w") as f:
                f.write(case["outer"])
            os.chmod(opf, 0o644)
            args = [self.sandbox, "-policy", opf] + args
        kw = {}
        if case.get("uid"):
            kw = dict(user=case["uid"], group=case["uid"], extra_groups=[])
        env = dict(os.environ, GODEBUG="asyncpreemptoff=1", GOTRACEBACK="none")
        if beside:
            env = dict(env, HOME=os.path.join(self.dir, "home"), TMPDIR=os.path.join(self.dir, "tmp"))
        if case.get("hostile"):
            # every variable the sources could ask for is set (lib/ambient.py); path-like ones name a policy that allows everything
            env = ambient.noise_env(env, value=lambda n: self.decoy)
        try:
            r = subprocess.run(args, capture_output=True, timeout=30, cwd=cwd, env=env,
                               stdin=subprocess.DEVNULL, **kw)
            code, out, err = r.returncode, r.stdout.decode("utf-8", "replace"), r.stderr.decode("utf-8", "replace")
        except subprocess.TimeoutExpired as e:
            code, out, err = "timeout", (e.stdout or b"").decode("utf-8", "replace"), (e.stderr or b"").decode("utf-8", "replace")
        ml = []
        if os.path.exists(marker):
            with open(marker) as f:
                ml = f.read().splitlines()
        for p in (marker, probes):
            if os.path.exists(p):
                os.remove(p)
        if kind == "text":
            os.remove(pf)
        if opf:
            os.remove(opf)
        if ddir:
            shutil.rmtree(ddir, ignore_errors=True)
        for b in beside or []:
            if os.path.exists(b):
                os.remove(b)
        return dict(exit=code, marker=ml, out=out.splitlines(), stderr=err[-600:], argv=args)


def parse_target_output(lines):
    res = dict(started=set(), done={}, threads=[], nnp=None, finished=False)
    for ln in lines:
        f = ln.split()
        if not f:
            continue
        if f[0] == "S" and len(f) == 2:
            res["started"].add(int(f[1]))
        elif f[0] == "D" and len(f) == 4:
            en, r1 = int(f[2]), int(f[3])
            if en == 0 and r1 >= (1 << 64) - 4095:
                en = (1 << 64) - r1
            res["done"][int(f[1])] = en
        elif f[0] == "T" and len(f) == 4:
            res["threads"].append((f[1], f[2], f[3]))
        elif f[0] == "N" and len(f) == 4:
            res["nnp"] = f[1]
            res["self"] = (f[2], f[3])
        elif f[0] == "Z":
            res["finished"] = True
    return res


# ------------------------------------------------------------------------------------------------ invalid files
def invalid_cases(rng, ng, table_names):
    """(label, case) pairs, each invalid in one way; the file otherwise looks like a valid policy."""
    def good():
        pol = ng.policy(rng.choice(["names", "cond", "mixed"]))
        return pol

    def with_text(label, text, **kw):
        return (label, dict(file=("text", text), target="probe", probes=[(39, 1, 2, 3, 4, 5, 6)], **kw))

    out = []
    out.append(("missing file", dict(file=("missing",), target="probe", probes=[(39, 0, 0, 0, 0, 0, 0)])))
    # a relative name that is missing in the working directory while a permissive policy of that name lies elsewhere
    # (next to the executable, in $HOME, in $TMPDIR): still a missing file
    for rel, how in (("seccomp.yml", "noflag"), ("seccomp.yml", "flag"), ("policy.yml", "flag"), ("./seccomp.yml", "flag")):
        out.append(("missing relative file %s (%s) with a permissive namesake next to the executable" % (rel, "default name, no flag" if how == "noflag" else "-policy"),
                    dict(file=("beside", rel), cwd_default=how, target="probe", probes=[(39, 0, 0, 0, 0, 0, 0)], hostile=rng.random() < 0.5)))
    out.append(("a directory as policy file", dict(file=("dir",), target="probe", probes=[(39, 0, 0, 0, 0, 0, 0)])))
    out.append(with_text("empty file", ""))
    out.append(with_text("file without a seccomp section", "other:\n  key: 1\n"))
    out.append(with_text("no syscall groups", "seccomp:\n  default_action: allow\n"))
    y = render_yaml(good())
    out.append(with_text("malformed YAML (unbalanced bracket)", y.replace("syscalls:", "syscalls: [", 1)))
    out.append(with_text("malformed YAML (tab indentation)", y.replace("  default_action", "\tdefault_action", 1)))
    out.append(with_text("malformed YAML (truncated mapping)", y + "  - action\n    names\n   - x: [\n"))
    out.append(with_text("wrong type: syscalls is a string", "seccomp:\n  default_action: allow\n  syscalls: getpid\n"))
    out.append(with_text("wrong type: default_action is a list", y.replace("default_action: allow", "default_action: [allow, errno]", 1).replace("default_action: log", "default_action: [log]", 1)))
    out.append(with_text("wrong type: value is a string", "seccomp:\n  default_action: allow\n  syscalls:\n  - action: errno\n    names_with_args:\n    - name: getuid\n      arguments:\n      - argument: 0\n        operation: Equal\n        value: many\n"))
    for bogus, where in [(b, w) for b in ["permit", "kill", "ERRNO_", "0x50000", "", "user_notify", "unknown"] for w in ("default", "group")]:
        pol = good()
        tgt = "default" if where == "default" else rng.randrange(len(pol["groups"]))
        text = render_yaml(pol)
        if tgt == "default":
            text = text.replace("default_action: %s" % ACTION_NAMES[pol["default"]], "default_action: %s" % (bogus or '""'), 1)
        else:
            parts = text.split("  - action: ")
            parts[tgt + 1] = (bogus or '""') + parts[tgt + 1][parts[tgt + 1].index("\n"):]
            text = "  - action: ".join(parts)
        out.append(with_text("unknown action %r as %s action" % (bogus, where), text))
    # names written in the syntax of a template / variable expansion: they are unknown names, whatever they would expand to
    for bogus, where in [(b, w) for b in ['"${UNSET:allow}"', '"${seccomp.default_action}"', '"${HOME}"', '"$allow"', '"%{allow}"', '"{{allow}}"', '"${UNSET:-allow}"']
                         for w in ("default", "group")]:
        pol = good()
        tgt = "default" if where == "default" else rng.randrange(len(pol["groups"]))
        text = render_yaml(pol)
        if tgt == "default":
            text = text.replace("default_action: %s" % ACTION_NAMES[pol["default"]], "default_action: %s" % bogus, 1)
        else:
            parts = text.split("  - action: ")
            parts[tgt + 1] = bogus + parts[tgt + 1][parts[tgt + 1].index("\n"):]
            text = "  - action: ".join(parts)
        out.append(with_text("action written as a variable reference %s (%s action)" % (bogus, where), text))
    # a valid name with white space around it (quoted, or as a block scalar, so that the YAML reader keeps it): not a name of
    # the table
    for bogus in ['"getppid "', '" getppid"', '"getppid\\n"', '"\\tgetppid"', "'getpid  '", '"getpid\\r"', '"get pid"']:
        pol = good()
        g = rng.choice(pol["groups"])
        g["names"] = [n for n in g["names"] if n not in ("getppid", "getpid")]
        g["names"].insert(rng.randint(0, len(g["names"])), "@BOGUS@")
        out.append(with_text("syscall name with white space around it: %s" % bogus, render_yaml(pol).replace("@BOGUS@", bogus)))
    for bogus in ['"${UNSET:getpid}"', '"${seccomp.syscalls.0.names.0}"', '"$getpid"']:
        pol = good()
        g = rng.choice(pol["groups"])
        g["names"].insert(rng.randint(0, len(g["names"])), "@BOGUS@")
        out.append(with_text("syscall name written as a variable reference %s" % bogus, render_yaml(pol).replace("@BOGUS@", bogus)))
    pol = good()
    g = rng.choice(pol["groups"])
    free = [n for n in ng.pool(g["action"]) if n not in g["names"]]
    g["nwc"].append(dict(name=rng.choice(free), conds=[(1, "BAD", 5)]))
    out.append(with_text("operation written as a variable reference", render_yaml(pol, op_text=lambda o: '"${UNSET:Equal}"' if o == "BAD" else OP_NAMES[o])))
    for bogus in ["nosuchcall", "GETPID", "getpid2", "x32_read", "open at"]:
        pol = good()
        g = rng.choice(pol["groups"])
        if g["names"] or not g["nwc"] or rng.random() < 0.5:
            g["names"].insert(rng.randint(0, len(g["names"])), bogus)
        else:
            g["nwc"].insert(rng.randint(0, len(g["nwc"])), dict(name=bogus, conds=[ng.pg.cond()]))
        out.append(with_text("unknown syscall name %r" % bogus, render_yaml(pol)))
    # ... also in a group whose presence cannot change any decision (its action is the default action), first and last
    for pos, bogus in (("last", "nosuchcall"), ("first", "getpid2"), ("last", "open at")):
        pol = good()
        extra = dict(action=pol["default"], names=[bogus] if rng.random() < 0.6 else [], nwc=[])
        if not extra["names"]:
            extra["nwc"] = [dict(name=bogus, conds=[ng.pg.cond()])]
        if pos == "last":
            pol["groups"].append(extra)
        else:
            pol["groups"].insert(0, extra)
        out.append(with_text("unknown syscall name %r in a %s group whose action is the default action" % (bogus, pos), render_yaml(pol)))
    pol = good()
    g = rng.choice(pol["groups"])
    if not g["names"]:
        g["names"].append(rng.choice([n for n in ng.pool(g["action"]) if all(w["name"] != n for w in g["nwc"])] or ["getpgrp"]))
    g["names"].insert(0, g["names"][-1])
    out.append(with_text("duplicate name in a group", render_yaml(pol)))
    pol = good()
    g = rng.choice(pol["groups"])
    if not g["names"]:
        g["names"].append(rng.choice([n for n in ng.pool(g["action"]) if all(w["name"] != n for w in g["nwc"])] or ["getpgrp"]))
    g["nwc"].append(dict(name=g["names"][0], conds=[ng.pg.cond()]))
    out.append(with_text("syscall with and without conditions in one group", render_yaml(pol)))
    # an unknown name directly behind a conditional entry for the syscall numbered 0 (what a failed lookup yields)
    zero = min(ng.table)[1]
    for bogus in ["nosuchcall", "getpid2"]:
        pol = good()
        g = rng.choice(pol["groups"])
        g["names"] = [n for n in g["names"] if n != zero]
        g["nwc"] = [w for w in g["nwc"] if w["name"] != zero]
        at = rng.randint(0, len(g["nwc"]))
        g["nwc"].insert(at, dict(name=zero, conds=[ng.pg.cond()]))
        g["nwc"].insert(rng.randint(at + 1, len(g["nwc"])), dict(name=bogus, conds=[ng.pg.cond()]))
        out.append(with_text("unknown syscall name %r with conditions, behind a conditional entry for %s (number %d)" % (bogus, zero, min(ng.table)[0]), render_yaml(pol)))
    for idx in [6, 7, 100, 1 << 29, (1 << 29) + 2, (1 << 30) + 5, (1 << 31) + 1, (7 << 29) + 3, 4294967295]:
        pol = good()
        g = rng.choice(pol["groups"])
        free = [n for n in ng.pool(g["action"]) if n not in g["names"]]
        (a, o, v) = ng.pg.cond()
        g["nwc"].append(dict(name=rng.choice(free), conds=[(idx, o, v)]))
        out.append(with_text("argument index %d" % idx, render_yaml(pol)))
    for bogus in ["Equals", "==", "bits"]:
        pol = good()
        g = rng.choice(pol["groups"])
        free = [n for n in ng.pool(g["action"]) if n not in g["names"]]
        g["nwc"].append(dict(name=rng.choice(free), conds=[(1, "BAD", 5)]))
        out.append(with_text("unknown operation %r" % bogus, render_yaml(pol, op_text=lambda o, bogus=bogus: bogus if o == "BAD" else OP_NAMES[o])))
    pol = good()
    g = rng.choice(pol["groups"])
    free = [n for n in ng.pool(g["action"]) if n not in g["names"]]
    text = render_yaml(pol) + ""
    g["nwc"].append(dict(name=rng.choice(free), conds=[]))
    out.append(with_text("conditional entry without conditions", render_yaml(pol).replace("      arguments:\n    - name", "      arguments: []\n    - name")))
    # a valid policy whose program is too large for the kernel
    pol = ng.policy("oversize")
    out.append(("program over 4096 instructions", dict(file=("text", render_yaml(pol)), target="probe", probes=[(39, 0, 0, 0, 0, 0, 0)])))
    # a valid policy that the kernel refuses to install: the command itself runs under an outer filter that answers
    # seccomp(2) (resp. prctl(2)) with EPERM
    for callname in ("seccomp", "prctl"):
        outer = "seccomp:\n  default_action: allow\n  syscalls:\n  - action: errno\n    names:\n    - %s\n" % callname
        out.append(("the kernel refuses the filter (%s(2) answered with EPERM by an outer filter)" % callname,
                    dict(file=("text", render_yaml(good())), target="probe", outer=outer, probes=[(39, 0, 0, 0, 0, 0, 0)])))
    # a valid policy, no target on the command line / unprivileged without no_new_privs
    out.append(("no target argument", dict(file=("text", render_yaml(good())), target="none", expect_marker=False)))
    out.append(("-no-new-privs=false as uid nobody (EACCES)", dict(file=("text", render_yaml(good())), target="probe", nnp=False, uid=NOBODY,
                                                                  probes=[(39, 0, 0, 0, 0, 0, 0)])))
    return out


# ------------------------------------------------------------------------------------------------ the check
def check_C15(ctx, replay=None):
    rng = random.Random(ctx.seed * 1000003 + 1515)
    gen, th, ok = K.setup(ctx, "C15.v", C15_THEOREMS, ["LoaderInst.v", "SandboxInst.v"])
    if not ok:
        return
    box = Box(ctx)
    err = box.build()
    if err:
        if th:
            th.join()
        ctx.violation("broken-obligation", dict(what="cmd/sandbox or the probe target does not build", log=err[-3000:]), False)
        return
    st = Stream(ctx)
    consts, arches = st.load_header()
    ng = NamedGen(rng, consts, arches)
    nbad = ndiff = 0
    reported = [0]
    samples = []
    stats = dict(runs=0, invalid=0, valid=0, probes=0, outcomes={}, nontrivial=set(), kinds={}, recorded={}, lens=[])

    deferred = []      # differences without a failing input: reported only when no failing input was found at all

    def viol(kind, payload, found):
        nonlocal nbad, ndiff
        if not found:
            ndiff += 1
            deferred.append((kind, payload))
            return
        nbad += 1
        if reported[0] < 3:
            reported[0] += 1
            p = ctx.violation(kind, payload, found)
            rewrite_with_replay_cmd(ctx, p)

    def run_invalid(label, case):
        stats["runs"] += 1
        stats["invalid"] += 1
        stats["kinds"]["invalid: " + label.split(" '")[0].split(' "')[0]] = stats["kinds"].get("invalid: " + label.split(" '")[0].split(' "')[0], 0) + 1
        r = box.run(case)
        if len(samples) < 2:
            samples.append(dict(invalid=label, file=list(case["file"])[:2], argv=[os.path.basename(a) for a in r["argv"]], exit=r["exit"], marker_lines=len(r["marker"])))
        problems = []
        if r["exit"] == 0:
            problems.append("exit status 0")
        if r["exit"] == "timeout":
            problems.append("did not terminate")
        if r["marker"]:
            problems.append("the target was run (marker file written %d time(s))" % len(r["marker"]))
        if problems:
            viol("counterexample", dict(case=dict(case, label=label), invalid=label, expected="exit status != 0 and the target not run",
                                        actual="; ".join(problems) + " (exit=%s)" % r["exit"], stderr=r["stderr"], stdout=r["out"][:20],
                                        what="the sandbox command did not refuse an invalid policy / command line before running the target"), True)

    def run_valid(items):
        """items: dict(pol, yaml, nnp, uid, events (V lines), cid, tokens)."""
        K.model_pass(ctx, st.header, items)
        cases, _ = st.run(["P %s 1 %s %s" % (it["cid"], K.NATIVE, it["tokens"]) for it in items])
        for it in items:
            go = cases[it["cid"]]["go"]
            n = int(go.split()[1]) if go.startswith("OK") else None
            if n is None or n > 4096:
                # the generator overshot the kernel's limit (or the compiler refuses the policy): an invalid file
                run_invalid("program over 4096 instructions" if n else "policy the compiler rejects: " + go[:40],
                            dict(file=("text", it["yaml"]), nnp=it["nnp"], uid=it["uid"], target="probe", probes=[(39, 0, 0, 0, 0, 0, 0)]))
                continue
            stats["lens"].append(n)
            kids = K.plan_children(it, max_extra=1)
            for idxs in kids:
                stats["runs"] += 1
                stats["valid"] += 1
                probes = [tuple(int(x) for x in (it["events"][i].split()[1:2] + it["events"][i].split()[4:10])) for i in idxs]
                case = dict(file=("text", it["yaml"]), nnp=it["nnp"], uid=it["uid"], target="probe", probes=probes, extra_args=it.get("extra_args", []), ext=it.get("ext", ".yml"))
                if replay and replay.get("case"):
                    case.update(hostile=replay["case"].get("hostile"), cwd_default=replay["case"].get("cwd_default"))
                else:
                    hr = rng.random()
                    if hr < 0.3:
                        case["hostile"] = True
                    if hr < 0.2 or hr > 0.92:
                        case["cwd_default"] = "noflag" if hr < 0.07 or hr > 0.96 else "flag"
                stats["kinds"]["hostile environment" if case.get("hostile") else "plain environment"] = stats["kinds"].get("hostile environment" if case.get("hostile") else "plain environment", 0) + 1
                r = box.run(case)
                t = parse_target_output(r["out"])
                if len(samples) < 4:
                    samples.append(dict(valid=it["kind"], file=it["yaml"][:400], argv=[os.path.basename(a) for a in r["argv"]], probes=probes[:2],
                                        exit=r["exit"], marker=r["marker"], target_output=r["out"][:8]))
                payload = dict(case=dict(case, label="valid policy", tokens=it["tokens"], events=[it["events"][i] for i in idxs], kind=it["kind"]),
                               policy_file=it["yaml"][:3000])
                if len(r["marker"]) != 1:
                    viol("counterexample", dict(payload, expected="the target runs once under the policy", actual="marker lines: %d, exit=%s" % (len(r["marker"]), r["exit"]),
                                                stderr=r["stderr"], what="a valid policy file: the target was not run exactly once"), True)
                    continue
                if it.get("extra_args") and r["marker"][0] != "ran " + " ".join(it["extra_args"]):
                    viol("counterexample", dict(payload, expected="target arguments %r" % it["extra_args"], actual=r["marker"][0],
                                                what="the target did not receive the command line arguments"), True)
                died = False
                for pos, i in enumerate(idxs):
                    w = it["decide"][i]
                    nr = probes[pos][0]
                    exp = K.expected_outcome(w, nr)
                    if exp[0] != "ret":
                        exp = ("died",)
                    if pos in t["done"]:
                        act = ("ret", t["done"][pos])
                    elif pos in t["started"]:
                        act = ("died",) if (r["exit"] != 0 and not t["finished"]) else ("lost",)
                        died = True
                    else:
                        act = ("notrun",)
                    stats["probes"] += 1
                    key = "%s->%s" % ("/".join(map(str, exp)), "/".join(map(str, act)))
                    stats["outcomes"][key] = stats["outcomes"].get(key, 0) + 1
                    if w != it["pol"]["default"]:
                        stats["nontrivial"].add((it["tokens"], it["events"][i]))
                    if act != exp:
                        viol("counterexample", dict(payload, event=it["events"][i], expected="%s => %s" % (K.word_name(w), "/".join(map(str, exp))),
                                                    actual="/".join(map(str, act)) + " (sandbox exit %s)" % r["exit"], stderr=r["stderr"],
                                                    what="the target, run by the sandbox command, observed a decision that is not the policy's"), True)
                        break
                    if died:
                        break
                # exit status: 0 iff the target ended normally
                if not died and t["finished"] and r["exit"] != 0:
                    viol("counterexample", dict(payload, expected="exit status 0 (the target ended normally)", actual="exit=%s" % r["exit"], stderr=r["stderr"],
                                                what="the sandbox command failed although policy and target were fine"), True)
                if died and r["exit"] == 0:
                    viol("correspondence", dict(payload, stream="exit status after the target was killed by the policy", model_result="exit status != 0 (C15_run_failure_exits_nonzero)",
                                                go_result="exit=0", what="model and command differ on the exit status after a failed target"), False)
                # correspondence with the model's composition: thread-sync reached every thread of the sandbox
                # process, the target carries exactly the one filter, no_new_privs follows the flag
                want_nnp = "0" if it["nnp"] is False else "1"
                facts = []
                if any(m != "2" for (_, m, _) in t["threads"]):
                    facts.append("threads of the sandbox process without a filter: %r" % [x for x in t["threads"] if x[1] != "2"])
                if t.get("self") != ("2", "1"):
                    facts.append("target's Seccomp/Seccomp_filters = %r (expected filter mode, one filter)" % (t.get("self"),))
                if t["nnp"] != want_nnp:
                    facts.append("target's NoNewPrivs = %s, expected %s" % (t["nnp"], want_nnp))
                if facts:
                    viol("correspondence", dict(payload, stream="seccomp state of the sandbox's threads and of the target (/proc) vs C15_filter_requests_tsync / C15_target_sees_policy",
                                                model_result="every thread in filter mode with the one filter; NoNewPrivs as requested", go_result="; ".join(facts),
                                                what="the observed seccomp state differs from the model's; no probe was found on which the target's observation violates the policy"), False)

    def fail_open_candidate():
        """A well-formed file whose `names` has the wrong type (a mapping): go-ucfg unpacks it into an empty list and
        the group has no names (a legal, degenerate policy value). Recorded as an observation, never judged; if the
        command ever refuses it, nothing is recorded beyond the result."""
        text = "seccomp:\n  default_action: allow\n  syscalls:\n  - action: errno\n    names:\n      getpid: 1\n"
        r = box.run(dict(file=("text", text), target="probe", probes=[(39, 1, 2, 3, 4, 5, 6)]))
        stats["runs"] += 1
        res = "exit=%s marker=%d" % (r["exit"], len(r["marker"]))
        stats["recorded"]["names given as a mapping (wrong type, well-formed YAML)"] = res
        if r["exit"] != 0 and not r["marker"]:
            return
        ctx.notes.append("observation (not judged: the file is parsed without error by go-ucfg, third-party, and a group without names "
                         "is a legal policy value): a policy file whose `names` is a mapping is accepted with that rule dropped and "
                         "the target runs: " + res)

    if replay and replay.get("case"):
        c = replay["case"]
        if c.get("label") == "valid policy":
            pol_default = int(c["tokens"].split()[0])
            it = dict(cid="r0", tokens=c["tokens"], events=c["events"], yaml=c["file"][1], nnp=c.get("nnp"), uid=c.get("uid", 0),
                      kind=c.get("kind"), pol=dict(default=pol_default), extra_args=c.get("extra_args", []))
            run_valid([it])
        else:
            case = dict(c)
            case["file"] = tuple(c["file"])
            case["probes"] = [tuple(p) for p in c.get("probes", [])]
            run_invalid(c.get("label", "replay"), case)
    else:
        q = ctx.tier == "quick"
        for rep in range(1 if q else 6):
            for (label, case) in invalid_cases(rng, ng, None):
                run_invalid(label, case)
        # recorded, not judged by the property: a target that does not exist (the policy loads, the exec fails)
        pol = ng.policy("names")
        r = box.run(dict(file=("text", render_yaml(pol)), target="absent"))
        stats["recorded"]["target program does not exist"] = "exit=%s marker=%d" % (r["exit"], len(r["marker"]))
        if r["exit"] == 0:
            viol("correspondence", dict(case=dict(label="absent target"), stream="exit status when the target cannot be started",
                                        model_result="exit status != 0 (C15_run_failure_exits_nonzero)", go_result="exit=0",
                                        what="model and command differ on the exit status when the target cannot be started"), False)
        fail_open_candidate()
        items = []
        nvalid = 45 if q else 500
        kinds = ["names", "cond", "cond", "mixed", "mixed", "long_names", "long_cond"]
        for i in range(nvalid):
            kind = rng.choice(kinds)
            pol = ng.policy(kind)
            nnp = rng.choice([None, None, True, False])
            uid = NOBODY if (nnp is not False and rng.random() < 0.2) else 0
            it = dict(cid="s%d" % i, pol=pol, tokens=PolicyGen.tokens(pol), yaml=render_yaml(pol, action_text=case_variant(rng, ACTION_NAMES), op_text=case_variant(rng, OP_NAMES)), nnp=nnp, uid=uid, kind=kind,
                      events=ng.events(pol, 40 if q else 60), default_word=pol["default"])
            if rng.random() < 0.2:
                # the policy as JSON text (a subset of YAML), in a file named .json / .JSON / .yml
                it["yaml"] = render_json(pol)
                it["ext"] = rng.choice([".json", ".json", ".JSON", ".yml"])
                it["kind"] = kind + "/json"
            elif rng.random() < 0.2:
                # a large file: comment lines in front of / behind the policy (sizes around 4 KiB, 64 KiB and beyond)
                n = rng.choice([4000, 65000, 65536 - len(it["yaml"]) // 2, 65536, 66000, 200000, 1100000])
                pad = ("# " + "x" * 77 + "\n") * (max(n, 80) // 80)
                it["yaml"] = (pad + it["yaml"]) if rng.random() < 0.6 else (it["yaml"] + pad)
                it["kind"] = kind + "/padded"
            if rng.random() < 0.3:
                it["extra_args"] = rng.sample(["-x", "--policy=zzz", "a b", "-no-new-privs=false", "7"], 2)
            items.append(it)
            k = "valid: %s%s%s" % (kind, "" if nnp is None else "/nnp=%s" % nnp, "/nobody" if uid else "")
            stats["kinds"][k] = stats["kinds"].get(k, 0) + 1
        run_valid(items)
    if th:
        th.join()
    if nbad == 0:
        for (kind, payload) in deferred[:3]:
            p = ctx.violation(kind, payload, False)
            rewrite_with_replay_cmd(ctx, p)
    ctx.coverage.update(dict(
        evaluations=stats["runs"] + stats["probes"], sandbox_runs=stats["runs"], invalid_runs=stats["invalid"], valid_runs=stats["valid"],
        probes_judged=stats["probes"], traces_validated_against_impl=stats["runs"],
        distinct_nontrivial=stats["invalid"] + len(stats["nontrivial"]),
        rule="the sandbox binary built from the working tree, run (a) on policy files invalid in one way each (missing, directory, empty, no seccomp section, no groups, three kinds of malformed YAML, four wrong types, unknown action / syscall name / operation in several spellings and positions incl. names written as variable references (${X:allow}, $allow, %{allow}), duplicate name, conditional+unconditional, argument index 6/7/100 and indices equal to a valid one modulo 2^29..2^31, an unknown name behind a conditional entry for syscall number 0, entry without conditions, program over 4096 instructions, valid policy refused by the kernel because an outer filter answers seccomp(2) / prctl(2) with EPERM), without target argument, with -no-new-privs=false as uid nobody: judged exit status != 0 and marker file absent; (b) on seeded valid policy files (names, conditions on all six arguments, several groups, over 255 and over 1000 instructions; default allow/log; errno, allow, log, trace, trap, kill_process) with and without -no-new-privs, as root and nobody, one in five padded with comment lines to 4 KiB .. 1.1 MB, one in five written as JSON text in a file named .json / .JSON / .yml, with extra target arguments: judged marker written once, every raw probe of the separate target equal to the extracted decide, exit status. non-trivial = invalid runs + distinct (policy, probe) pairs whose specified decision differs from the default action's",
        counterexamples=nbad, correspondence_differences=ndiff,
        input_distribution=dict(cases=stats["kinds"], outcomes=stats["outcomes"], recorded=stats["recorded"],
                                program_length=dict(min=min(stats["lens"]) if stats["lens"] else 0, max=max(stats["lens"]) if stats["lens"] else 0,
                                                    over_255=sum(1 for x in stats["lens"] if x > 255), over_1000=sum(1 for x in stats["lens"] if x > 1000))),
        samples=samples,
    ))
    ctx.coverage["checker_cmd"] = ("coqc 8.16.1 (full .vo) on coq/theories + regenerated gen/ + coq/properties/SandboxInst.v (per-run proof, by case analysis over "
                                   "every outcome oracle, that the interpretation of the regenerated main() equals the reference behaviour) + LoaderInst.v + "
                                   "coq/properties/C15.v; Print Assumptions per theorem")
    ctx.assumptions += [
        "PARTIAL: fork+execve are represented by KernelState.clone plus kernel assumption E1 (execve keeps the seccomp filter stack and no_new_privs of the calling thread); two real processes and the real execve are observed by this experiment, not modelled",
        "go-ucfg / yaml.v2 (file -> seccomp.Policy) are exercised, not modelled: in the model conf.Unpack is an oracle outcome and the policy it stores is a parameter",
        "the flag package is modelled only as far as the skeleton shows it: the variables registered for -policy and -no-new-privs (default true) before flag.Parse() are the ones read later",
    ]
    finish_with_proof_status(ctx, nbad, "C15 theorems over the regenerated skeleton of cmd/sandbox/main.go")


CHECKS = {"C15": check_C15}
