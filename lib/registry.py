import corechecks

CHECKS = {
    "C06": corechecks.check_C06,
}
