"""Property id -> check function. Modules are optional so that components can be added independently."""
import importlib

CHECKS = {}
for _mod in ("corechecks", "datachecks", "textchecks", "disasmchecks", "profilerchecks", "loaderchecks", "kernelchecks", "sandboxchecks"):
    try:
        _m = importlib.import_module(_mod)
    except ModuleNotFoundError as e:
        if e.name != _mod:
            raise
        continue
    CHECKS.update(getattr(_m, "CHECKS", {}))
