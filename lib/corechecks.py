"""Checks for the compiler core: C01-C07 (policy compiler, assembler)."""
import json
import os
import random
import re
import time

import subprocess

import ambient
from common import REPO, VERIF, GOENV, load_known_findings
from gencases import BuilderGen, PolicyGen, parse_header, OPS, M32, M64


_HOST = []


def host_goarch():
    if not _HOST:
        _HOST.append(subprocess.run(["go", "env", "GOARCH"], env=GOENV, capture_output=True, text=True, timeout=60).stdout.strip() or "amd64")
    return _HOST[0]


# ------------------------------------------------------------------------------------------------ stream runner
class Stream:
    """Runs case lines through the real code (harness compile) and the extracted model/specification (driver)."""

    def __init__(self, ctx, harness=None, env=None, prefix=None):
        self.ctx = ctx
        self.prefix = prefix        # e.g. ["setarch", "linux32"]: the process runs under another personality
        self.header = None
        self.raw_verdicts = {}
        self.harness = harness      # None: the host build
        self.env = env

    def load_header(self):
        r = self.ctx.run_harness(["compile"], "", harness=self.harness, env=self.env, prefix=self.prefix)
        if r.returncode != 0:
            raise RuntimeError("harness compile failed: " + r.stderr[-2000:])
        self.header = r.stdout
        return parse_header(r.stdout)

    def run(self, lines):
        """lines: list of case lines (B/P followed by their V lines). Returns (cases, summary) where cases maps
        id -> dict(line=annotated line, corr='same'|'DIFF', model=..., go=..., events=[(idx, ok, want, got, vline)])."""
        inp = "\n".join(lines) + "\n"
        try:
            r = self.ctx.run_harness(["compile"], inp, harness=self.harness, env=self.env, prefix=self.prefix, timeout=300 if self.env else 600)
        except subprocess.TimeoutExpired:
            raise RuntimeError("harness compile failed: no exit within the time limit")
        if r.returncode != 0:
            raise RuntimeError("harness compile failed: " + r.stderr[-2000:])
        annotated = r.stdout
        d = self.ctx.run_driver(annotated)
        if d.returncode != 0:
            raise RuntimeError("driver failed: " + d.stderr[-2000:])
        cases = {}
        cur = None
        vlines = {}
        for ln in annotated.splitlines():
            if ln.startswith("B ") or ln.startswith("P "):
                cur = ln.split(" ", 2)[1]
                cases[cur] = dict(line=ln, corr=None, events=[], go=ln.split(" | ", 1)[1] if " | " in ln else "")
                vlines[cur] = []
            elif ln.startswith("V ") and cur is not None:
                vlines[cur].append(ln)
        summary = None
        errors = [ln for ln in d.stdout.splitlines() if ln.startswith("X ")]
        if errors:
            raise RuntimeError("driver reported errors: " + "; ".join(e[:300] for e in errors[:3]))
        for ln in d.stdout.splitlines():
            if ln.startswith("C "):
                f = ln.split(" ", 3)
                cid = f[1]
                cases[cid]["corr"] = f[2]
                if f[2] == "DIFF":
                    m, g = f[3].split(" ## ", 1)
                    cases[cid]["model"] = m
                    # error CLASSES are read off message texts by the harness; the properties only distinguish
                    # "error, no program" from "program": two errors are the same observable
                    if m.startswith("ERR") and g.startswith("ERR "):
                        cases[cid]["corr"] = "same-error"
            elif ln.startswith("E "):
                f = ln.split(" ", 4)
                cid, idx, ok = f[1], int(f[2]), f[3] == "ok"
                want = got = None
                if not ok:
                    mm = re.match(r"want=(\S+) got=(\S+)", f[4])
                    want, got = mm.group(1), mm.group(2)
                cases[cid]["events"].append((idx, ok, want, got, vlines[cid][idx]))
            elif ln.startswith("K "):
                f = ln.split(" ", 4)
                cases[f[1]]["kcheck"] = (f[2] == "valid", f[3], f[4] if len(f) > 4 else "")
            elif ln.startswith("R "):
                f = ln.split()
                self.raw_verdicts[f[1]] = (f[2] == "valid")
            elif ln.startswith("S "):
                summary = dict(kv.split("=") for kv in ln.split()[1:])
            elif ln.startswith("X "):
                errors.append(ln)
        if errors:
            raise RuntimeError("driver reported errors: " + "; ".join(errors[:3]))
        return cases, summary


def summarize_go(res):
    f = res.split()
    if not f:
        return "?"
    if f[0] == "OK":
        return "OK len=%s" % f[1]
    return res[:80]


def replay_cmd(prop, path):
    return "cd /verif && ./check %s --replay %s" % (prop, path)


def report_case_failures(ctx, cases, what, scope_filter=None, describe=None):
    """Turn correspondence differences and direct-search counterexamples into violations.
    Returns (n_diff, n_bad)."""
    ndiff = nbad = 0
    reported_diff = reported_bad = 0
    for cid, c in cases.items():
        bad_events = [e for e in c["events"] if not e[1]]
        if bad_events:
            nbad += len(bad_events)
            if reported_bad < 3:
                idx, _, want, got, vline = bad_events[0]
                payload = dict(case=c["line"].split(" | ")[0], event=vline, expected=want, actual=got,
                               go_result=summarize_go(c["go"]), what=what + ": the program emitted by the implementation disagrees with the specification on this event",
                               description=describe(cid) if describe else None)
                p = ctx.violation("counterexample", payload, True)
                rewrite_with_replay_cmd(ctx, p)
                reported_bad += 1
    # differences whose input is itself a failing input (the model accepts, the implementation refuses, dies, clobbers or
    # answers differently the second time) come first; plain differences of two accepted programs are reported only when no
    # failing input was found at all
    diffs = [(cid, c) for cid, c in cases.items() if c["corr"] == "DIFF"]
    diffs.sort(key=lambda x: 0 if (x[1].get("model", "").startswith("OK") and not x[1]["go"].startswith("OK")) else 1)
    found_any = any(c.get("model", "").startswith("OK") and not c["go"].startswith("OK") for _, c in diffs)
    for cid, c in diffs:
        if c["corr"] == "DIFF":
            ndiff += 1
            model_ok = c.get("model", "").startswith("OK")
            go_ok = c["go"].startswith("OK")
            if (found_any or nbad) and not (model_ok and not go_ok):
                continue
            if reported_diff < 3 and (nbad == 0 or (model_ok and not go_ok)):
                # the (proved) model accepts this input and the implementation refuses it or panics: the input itself
                # is the failing input. Two different accepted programs, or an input only the implementation accepts,
                # are a broken correspondence without a failing input.
                found = model_ok and not go_ok
                payload = dict(case=c["line"].split(" | ")[0], stream=what, model_result=c.get("model", "")[:4000],
                               go_result=c["go"][:4000],
                               what=("a program that Assemble returned earlier was changed by this later compilation (the caller's slice is overwritten)" if c["go"].startswith("CLOBBERED") else
                                     "assembling the same builder value a second time fails or gives another list than the first time" if c["go"].startswith("SECOND_ASSEMBLE") else
                                     "the implementation refuses (or panics on) an input that the proved model accepts" if found else
                                     "correspondence: the executable model and the implementation differ on this case; no event was found on which the implementation's program violates the specification"),
                               description=describe(cid) if describe else None)
                p = ctx.violation("counterexample" if found else "correspondence", payload, found)
                rewrite_with_replay_cmd(ctx, p)
                reported_diff += 1
    return ndiff, nbad


def rewrite_with_replay_cmd(ctx, path):
    with open(path) as f:
        body = json.load(f)
    body["how_to_replay"] = replay_cmd(ctx.prop, path)
    with open(path, "w") as f:
        json.dump(body, f, indent=1, sort_keys=True)
        f.write("\n")


def proof_step(ctx, prop_file, theorems, gen=None):
    """Compile the property file; a failure is a broken obligation (searched for a failing input by the caller's
    direct search, which always runs)."""
    ok, msg = ctx.ensure_theories()
    if not ok:
        ctx.broken = "framework build failed: " + msg[-1500:]
        ctx.obligations += [t for t in theorems if t not in ctx.obligations]
        return False
    if getattr(ctx, "regen_failed", None):
        ctx.broken = ctx.regen_failed
        ctx.obligations += [t for t in theorems if t not in ctx.obligations]
        return False
    res, log = ctx.check_properties_file(prop_file, theorems, gen=gen)
    failed = [(t, d) for t, (okk, d) in res.items() if not okk]
    if failed:
        ctx.broken = "; ".join("%s: %s" % (t, d) for t, d in failed) + "\n" + log[-1500:]
        return False
    ctx.broken = None
    return True


def finish_with_proof_status(ctx, nbad, what):
    """If a proof obligation is broken and the search found nothing, report no-failing-input-found."""
    if getattr(ctx, "broken", None) and nbad == 0 and not ctx.violations:
        p = ctx.violation("broken-obligation", dict(theorem_status=ctx.broken, what=what), False)
        rewrite_with_replay_cmd(ctx, p)
    elif getattr(ctx, "broken", None) and not any(not nf for _, nf in ctx.violations):
        pass


# ------------------------------------------------------------------------------------------------ C06
def check_C06(ctx, replay=None):
    rng = random.Random(ctx.seed * 1000003 + 6)
    proof_step(ctx, "C06.v", ["C06_build_correct", "C06_assemble_correct", "C06_never_out_of_reach", "C06_bridges_preserve_paths"])
    h, err = ctx.build_harness()
    if not h:
        p = ctx.violation("broken-obligation", dict(what="the harness does not build against the repository", log=err[-3000:]), False)
        return
    st = Stream(ctx)
    st.load_header()
    lines = []
    dist = {}
    if replay:
        lines = [replay["case"]] + ([replay["event"]] if replay.get("event") else [])
    else:
        bg = BuilderGen(rng)
        corpus = load_corpus("C06")
        lines += corpus
        nprog = 1000 if ctx.tier == "quick" else 8000
        nev = 24 if ctx.tier == "quick" else 40
        for i in range(nprog):
            kind, nops, toks = bg.twoway() if i % 12 == 5 else (bg.shared_return() if i % 12 == 9 else bg.program())
            dist[kind] = dist.get(kind, 0) + 1
            lines.append("B b%d %d %d %s" % (i, rng.randint(0, 1), nops, toks))
            lines += bg.events(nev)
        # programs of more than 65536 instructions (the builder has no size limit): jumps across the whole program and
        # labels, jumps and bridges at positions beyond 2^16
        for j in range(1 if ctx.tier == "quick" else 4):
            fill = 65536 + rng.choice([0, 1, 5, 300]) + j
            ops = ["N", "N", "L 0", "J eq 3 2 3"] + ["%s %d" % (rng.choice("HL"), rng.randint(0, 5)) for _ in range(fill)]
            ops += ["N", "N", "L 1", "J gt 2 4 5"] + ["L 2"] * rng.choice([0, 3, 254, 255, 256, 300]) + ["S 4", "R 196608", "S 5", "R 327685"]
            ops += ["H 0"] * rng.choice([0, 1, 255, 256]) + ["S 2", "R 2147418112", "S 3", "R 327680"]
            toks = " ".join(ops).split()
            nops = sum(1 for t in toks if t in ("N", "J", "T", "G", "S", "R", "H", "L"))
            dist["huge"] = dist.get("huge", 0) + 1
            lines.append("B bh%d %d %d %s" % (j, rng.randint(0, 1), nops, " ".join(toks)))
            lines += bg.events(nev)
    cases, summary = st.run(lines)
    ndiff, nbad = report_case_failures(ctx, cases, "builder programs (C06; every builder value is assembled twice: the list of the first call, or, where the second call returns another list, that of the second call)")
    # coverage
    ok_cases = [c for c in cases.values() if c["go"].startswith("OK")]
    bridged = 0
    distinct = set()
    for c in cases.values():
        distinct.add(c["line"].split(" ", 2)[2])
    err_classes = {}
    for c in cases.values():
        if not c["go"].startswith("OK"):
            err_classes[c["go"]] = err_classes.get(c["go"], 0) + 1
    for c in ok_cases:
        nops_real = sum(1 for t in c["line"].split(" | ")[0].split() if t in ("J", "T", "G", "R", "H", "L"))
        if int(c["go"].split()[1]) > nops_real:
            bridged += 1
    ctx.coverage.update(dict(
        evaluations=int(summary["cases"]) + int(summary["events"]),
        programs=int(summary["cases"]), events_run=int(summary["events"]),
        distinct_nontrivial=bridged,
        rule="builder call sequences from the seeded generator (sizes 1..1100 instructions, distances from {0..3,253..258,509..512,...}, shared and private labels, Jmp, malformed: unset/twice/backward/useless labels); non-trivial = assembled successfully AND needed at least one bridge; compared instruction-exactly with the extracted model, and every accepted program run on events against the label machine",
        correspondence_differences=ndiff, counterexamples=nbad,
        input_distribution=dict(kinds=dist, error_classes=err_classes, accepted=len(ok_cases), needed_bridges=bridged),
        samples=[c["line"][:300] for c in list(cases.values())[:2]],
    ))
    finish_with_proof_status(ctx, nbad, "C06 theorems over the assembler model")


def load_corpus(prop):
    d = os.path.join(VERIF, "corpus", prop)
    out = []
    if os.path.isdir(d):
        for fn in sorted(os.listdir(d)):
            with open(os.path.join(d, fn)) as f:
                out += [ln.rstrip("\n") for ln in f if ln.strip() and not ln.startswith("#")]
    return out


CHECKS = {"C06": check_C06}


# ------------------------------------------------------------------------------------------------ policy streams
# the documented architecture names (README / arch.GetInfo): what each spelling denotes
ALIASES = {"X86_64": ["amd64", "x86_64"], "I386": ["386", "i386"], "ARM": ["arm"], "AARCH64": ["arm64", "aarch64"], "X32": ["x32"]}


def policy_stream(ctx, prop, kinds, npol, nev, arches=None, defects=None, le_choices=(0, 1), replay=None,
                  defect_share=0.0, foreign_share=0.15, extra_cases=None, x32_share=0.0, goarch=None, salt=0, native_endian=False,
                  noise=False, prefix=None, native_share=0.12, outer=False):
    """Generate policies of the given kinds, compile them with the implementation and the model, and run the
    implementation's programs on partition events against the specification. Returns dict with results."""
    rng = random.Random(ctx.seed * 1000003 + int(prop[1:]) + salt)
    h, err = ctx.build_harness(goarch=goarch)
    if not h:
        ctx.violation("broken-obligation", dict(what="the harness does not build against the repository" + (" for GOARCH=%s" % goarch if goarch else ""), log=err[-3000:]), False)
        return None
    # native_endian: the harness leaves the byte order as the library determined it for the build (little-endian on the
    # targets this host can run: amd64, 386)
    env = dict(GOENV, VERIF_NATIVE_ENDIAN="1") if native_endian else None
    if noise:
        # hostile surroundings: every variable the sources could ask for is set (lib/ambient.py)
        env = ambient.noise_env(env or GOENV)
    if outer:
        # the compiling process is confined by an outer seccomp filter (hand-written, not the library's) that answers seccomp(2) with EPERM
        env = dict(env or GOENV, VERIF_OUTER_FILTER="1")
    st = Stream(ctx, harness=h if goarch else None, env=env, prefix=prefix)
    if native_endian:
        le_choices = (1,)
    consts, arches_tbl = st.load_header()
    # the architecture the library picks when none is named is the build's GOARCH (arch.GetInfo("")), whatever the
    # kernel, the personality or the environment say
    want = ambient.EXPECTED_NATIVE.get(goarch or host_goarch())
    if want and want in arches_tbl:
        nat = arches_tbl.get("NATIVE")
        if nat is None or any(nat[k] != arches_tbl[want][k] for k in ("id", "mask", "table")):
            ctx.violation("counterexample", dict(
                what="arch.GetInfo(\"\") of a %s build does not resolve to the %s record" % (goarch or "host (%s)" % host_goarch(), want),
                goarch=goarch or "host", noise=bool(noise), prefix=prefix or [],
                got=None if nat is None else dict(id=nat["id"], mask=nat["mask"], names=len(nat["table"])),
                want=dict(id=arches_tbl[want]["id"], mask=arches_tbl[want]["mask"], names=len(arches_tbl[want]["table"])),
                environment={k: v for k, v in (env or {}).items() if k not in os.environ or os.environ[k] != v} if noise else {},
                replay_hint="run `%sharness compile </dev/null` (built with GOARCH=%s) and read the A NATIVE line" % (" ".join(prefix or []) + " " if prefix else "", goarch or "host")), True)
            return None
    pg = PolicyGen(rng, consts, arches_tbl)
    lines = []
    meta = {}
    dist = {}
    if replay and replay.get("case"):
        lines = [replay["case"]] + ([replay["event"]] if replay.get("event") else [])
    else:
        lines += load_corpus(prop)
        for i in range(npol):
            kind = rng.choice(kinds)
            an = rng.choice(arches or PolicyGen.TABLE_ARCHES)
            defect = None
            if defects and rng.random() < defect_share:
                defect = rng.choice(defects)
            pol = pg.policy(archname=an, kind=kind, defect=defect)
            le = rng.choice(le_choices)
            cid = "p%d" % i
            meta[cid] = dict(kind=kind, arch=an, defect=defect, le=le, groups=len(pol["groups"]))
            key = kind + ("/" + defect if defect else "")
            dist[key] = dist.get(key, 0) + 1
            atok = an
            r = rng.random()
            if r < native_share and an in arches_tbl and "NATIVE" in arches_tbl and arches_tbl["NATIVE"]["id"] == arches_tbl[an]["id"] and arches_tbl["NATIVE"]["mask"] == arches_tbl[an]["mask"]:
                atok = "NATIVE"      # the library resolves the architecture itself (public API path)
            elif r < native_share + 0.12:
                atok = "%s>%s" % (rng.choice([a for a in PolicyGen.TABLE_ARCHES if a != an]), an)   # same value assembled for another architecture first
            elif r < native_share + 0.17:
                atok = "S>%s" % an       # the exported SyscallGroup.Assemble is called on the value's groups first
            elif r < native_share + 0.25 and an in ALIASES:
                sp = "".join(ch.upper() if rng.random() < 0.3 else ch for ch in rng.choice(ALIASES[an]))
                atok = "G:%s>%s" % (sp, an)          # looked up by (documented) name through arch.GetInfo
            meta[cid]["arch_token"] = atok
            lines.append("P %s %d %s %s" % (cid, le, atok, PolicyGen.tokens(pol)))
            if nev:
                lines += pg.events(pol, nev, foreign_share=foreign_share, x32_share=x32_share)
            if not defect and pol["groups"] and rng.random() < 0.08:
                # the SAME policy value, edited in place (same default action, same number of groups) and assembled again
                pol2 = pg.edited(pol)
                cid2 = cid + "e"
                meta[cid2] = dict(kind=kind + "/edited-in-place", arch=an, defect=None, le=le, groups=len(pol2["groups"]), arch_token="@>" + an)
                dist[kind + "/edited-in-place"] = dist.get(kind + "/edited-in-place", 0) + 1
                lines.append("P %s %d @>%s %s" % (cid2, le, an, PolicyGen.tokens(pol2)))
                if nev:
                    lines += pg.events(pol2, max(5, nev // 2), foreign_share=foreign_share, x32_share=x32_share)
            if not defect and pol["groups"] and rng.random() < 0.06:
                # fresh policy values that differ only in one group's action, an unnamed one each time
                for j, sib in enumerate(pg.siblings(pol)):
                    cid3 = "%ss%d" % (cid, j)
                    meta[cid3] = dict(kind=kind + "/sibling", arch=an, defect=None, le=le, groups=len(sib["groups"]), arch_token=an)
                    dist[kind + "/sibling"] = dist.get(kind + "/sibling", 0) + 1
                    lines.append("P %s %d %s %s" % (cid3, le, an, PolicyGen.tokens(sib)))
                    if nev:
                        lines += pg.events(sib, max(5, nev // 2), foreign_share=foreign_share, x32_share=x32_share)
            if defect and an in PolicyGen.TABLE_ARCHES and rng.random() < 0.5:
                # the refused policy VALUE is repaired in place and assembled again; its architecture is left as the
                # failed call left it ("@@>B": no architecture is set again)
                pol3 = pg.policy(archname=an, kind=kind)
                cid4 = cid + "r"
                meta[cid4] = dict(kind=kind + "/repaired-in-place", arch=an, defect=None, le=le, groups=len(pol3["groups"]), arch_token="@@>" + an)
                dist[kind + "/repaired-in-place"] = dist.get(kind + "/repaired-in-place", 0) + 1
                # the value whose compilation failed must be the previous case: re-emit the defective one right before
                lines.append("P %sx %d %s %s" % (cid, le, an, PolicyGen.tokens(pol)))
                meta[cid + "x"] = dict(meta[cid])
                lines.append("P %s %d @@>%s %s" % (cid4, le, an, PolicyGen.tokens(pol3)))
                if nev:
                    lines += pg.events(pol3, max(5, nev // 2), foreign_share=foreign_share, x32_share=x32_share)
        for (cid, line, evs, m) in (extra_cases(pg, rng) if extra_cases else []):
            meta[cid] = m
            dist[m.get("kind", "extra")] = dist.get(m.get("kind", "extra"), 0) + 1
            lines.append(line)
            lines += evs
    try:
        cases, summary = st.run(lines)
    except RuntimeError as e:
        if "harness compile failed" not in str(e):
            raise
        # the compiling process died: find one policy on which it does (each case in a process of its own)
        groups = []
        for ln in lines:
            if ln.startswith("P ") or ln.startswith("B "):
                groups.append([ln])
            elif groups:
                groups[-1].append(ln)
        envdiff = {k: v for k, v in (env or {}).items() if os.environ.get(k) != v} if noise else {}
        for i, g in enumerate(groups[:400]):
            tok = g[0].split(" ", 4)[3] if len(g[0].split(" ", 4)) > 3 else ""
            pre = [groups[i - 1][0]] if tok.startswith("@") and i else []
            try:
                r = ctx.run_harness(["compile"], "\n".join(pre + g[:1]) + "\n", harness=st.harness, env=st.env, prefix=st.prefix, timeout=60)
                rc, tail = r.returncode, (r.stderr[:700] + " ... " + r.stderr[-700:]) if len(r.stderr) > 1500 else r.stderr
            except subprocess.TimeoutExpired:
                rc, tail = "none within 60 s", ""
            if rc != 0:
                ctx.violation("counterexample", dict(
                    what="the process compiling this policy dies or hangs (exit status: %s) instead of returning a program or an error" % rc,
                    case=g[0], previous_case=pre, stderr=tail, goarch=goarch or "host", noise=bool(noise), prefix=prefix or [],
                    environment=envdiff, meta=meta.get(g[0].split(" ", 2)[1])), True)
                return None
        ctx.violation("broken-obligation", dict(what="the harness dies on the whole stream but on no single case of the first 400", log=str(e)[-2000:],
                                                goarch=goarch or "host", noise=bool(noise), prefix=prefix or [], environment=envdiff), False)
        return None
    return dict(cases=cases, summary=summary, meta=meta, dist=dist, consts=consts, arches=arches_tbl, stream=st)


def ambient_passes(ctx, prop, kinds, replay=None, npol=(40, 300), nev=10, **kw):
    """The same kinds of policies compiled by processes in hostile surroundings: every environment variable the sources
    could ask for is set (lib/ambient.py), the kernel reports another machine and release (setarch), the binary is a 32-bit
    build on this 64-bit kernel; a third of the policies leave the architecture to the library. The programs must still
    be the model's."""
    pres = ambient.personality_prefixes()
    combos = [(None, None, False), ("386", None, False)] + ([(None, pres[0], False), ("386", pres[1], False)] if pres else []) + [(None, None, True), ("386", None, True)]
    n = npol[0] if ctx.tier == "quick" else npol[1]
    total = dict(programs=0, events=0, combos=[])
    for ci, (ga, pre, outer) in enumerate(combos):
        label = "%s build, hostile environment%s%s" % (ga or "host", ", run under `%s`" % " ".join(pre) if pre else "",
                                                       ", confined by an outer seccomp filter that refuses seccomp(2)" if outer else "")
        if replay and replay.get("ambient") != label:
            continue
        before = len(ctx.violations)
        res = policy_stream(ctx, prop, kinds, n, nev, goarch=ga, salt=9100 + ci, replay=replay, native_endian=True, noise=True, prefix=pre,
                            native_share=0.35, outer=outer, **kw)
        if res is not None:
            ndiff, nbad = report_case_failures(ctx, res["cases"], "policies compiled by a %s (%s)" % (label, prop),
                                               describe=lambda cid: dict(res["meta"].get(cid) or {}, ambient=label))
            total["programs"] += int(res["summary"]["cases"])
            total["events"] += int(res["summary"]["events"])
            ctx.coverage["evaluations"] = ctx.coverage.get("evaluations", 0) + int(res["summary"]["cases"]) + int(res["summary"]["events"])
            ctx.coverage["counterexamples"] = ctx.coverage.get("counterexamples", 0) + nbad
            ctx.coverage["correspondence_differences"] = ctx.coverage.get("correspondence_differences", 0) + ndiff
        for path, _ in ctx.violations[before:]:
            with open(path) as f:
                body = json.load(f)
            body["ambient"] = label
            body["goarch"] = ga or "host"
            body["native_endian"] = True
            with open(path, "w") as f:
                json.dump(body, f, indent=1, sort_keys=True)
                f.write("\n")
        total["combos"].append(label)
    ctx.coverage["hostile_surroundings"] = dict(total, variables=sorted(set(ambient.discover_names()) | set(ambient.FIXED)))


def policy_coverage(ctx, res, rule, nontrivial):
    cases = res["cases"]
    lens = [int(c["go"].split()[1]) for c in cases.values() if c["go"].startswith("OK")]
    errs = {}
    for c in cases.values():
        if not c["go"].startswith("OK"):
            errs[c["go"]] = errs.get(c["go"], 0) + 1
    distinct = set(c["line"].split(" ", 2)[2].split(" | ")[0] for cid, c in cases.items() if nontrivial(cid, c))
    outcomes = {}
    for c in cases.values():
        for e in c["events"]:
            pass
    ctx.coverage.update(dict(
        evaluations=int(res["summary"]["cases"]) + int(res["summary"]["events"]),
        programs=int(res["summary"]["cases"]), events_run=int(res["summary"]["events"]),
        distinct_nontrivial=len(distinct), rule=rule,
        input_distribution=dict(kinds=res["dist"], error_classes=errs, accepted=len(lens),
                                program_length=dict(min=min(lens) if lens else 0, max=max(lens) if lens else 0,
                                                    over_255=sum(1 for x in lens if x > 255), over_4096=sum(1 for x in lens if x > 4096))),
        samples=[c["line"][:400] for c in list(cases.values())[:2]],
    ))


def check_core_policy(ctx, prop, prop_file, theorems, kinds, rule, replay=None, npol=(400, 4000), nev=(40, 80),
                      gen=None, diff_filter=None, ambient_kinds=None, **kw):
    proof_step(ctx, prop_file, theorems, gen=gen)
    q = ctx.tier == "quick"
    res = policy_stream(ctx, prop, kinds, npol[0] if q else npol[1], nev[0] if q else nev[1], replay=replay, **kw)
    if res is None:
        return None
    meta = res["meta"]
    if diff_filter:
        # scope the correspondence to the observables this property speaks about (DESIGN 5.4)
        for c in res["cases"].values():
            if c["corr"] == "DIFF" and not diff_filter(c):
                c["corr"] = "same-projection"
    ndiff, nbad = report_case_failures(ctx, res["cases"], "policies (%s)" % prop, describe=lambda cid: meta.get(cid))
    policy_coverage(ctx, res, rule, lambda cid, c: c["go"].startswith("OK") and len(c["events"]) > 0)
    ctx.coverage["correspondence_differences"] = ndiff
    ctx.coverage["counterexamples"] = nbad
    if ambient_kinds and not (replay and not replay.get("ambient")):
        ambient_passes(ctx, prop, ambient_kinds, replay=replay if replay and replay.get("ambient") else None,
                       **{k: v for k, v in kw.items() if k in ("arches", "x32_share", "foreign_share")})
    finish_with_proof_status(ctx, nbad, "%s theorems" % prop)
    return res


def check_C01(ctx, replay=None):
    ctx.ensure_theories()
    gen, log = ctx.regenerate()
    if gen is None:
        ctx.regen_failed = "regeneration failed: " + log[-2000:]
    check_core_policy(ctx, "C01", "C01.v", ["C01_first_matching_group", "C01_errno_carries_eperm", "C01_other_actions_exact",
                                            "C01_lists_means_name_with_that_number", "C01_first_in_policy_order", "C01_source_group_is_the_model",
                                            "C01_source_return_value_is_the_model", "C01_source_policy_is_the_model"],
                      ["names", "names", "names", "names_long", "names_long", "whole_table", "degenerate", "degenerate", "mixed", "cond"],
                      "name-only policies (1..6 groups, 0..|table| names, all four tables, both byte orders) and, at a share of one in five, policies whose groups also hold conditional entries (an entry whose conditions fail does not list the syscall: a later group does), compiled by the implementation and the extracted model (instruction-exact comparison); every accepted program run on partition events (numbers of all listed names +-1, boundary numbers, foreign architectures) against the extracted decide; non-trivial = accepted policy with events evaluated",
                      replay=replay, gen=gen, ambient_kinds=["names", "mixed"])


CHECKS.update({"C01": check_C01})


# ------------------------------------------------------------------------------------------------ C02
def check_C02(ctx, replay=None):
    theorems = ["C02_eq_by_halves", "C02_lt_by_halves", "C02_le_by_halves", "C02_bits_by_halves",
                "C02_ldhi_reads_high_half", "C02_ldlo_reads_low_half", "C02_condition_lowering",
                "C02_single_condition_exact", "C02_relations", "C02_relations_partition", "C02_halves_are_faithful", "C02_source_chain_is_the_model", "C02_source_chain_context",
                "C02_source_load_offsets", "C02_nonvacuous"]
    ctx.ensure_theories()
    gen, log = ctx.regenerate()
    if gen is None:
        ctx.regen_failed = "regeneration failed: " + log[-2000:]
    check_core_policy(ctx, "C02", "C02.v", theorems,
                      ["single_cond", "single_cond", "single_cond", "pair_cond", "value_list"],
                      "one group / one conditional entry / one condition (and, one case in four, two or three single-condition alternatives of one syscall on the same argument with related operands): 8 operations x 6 argument indices x boundary and random 64-bit operands x both byte orders x four tables, compiled by the implementation and the extracted model (instruction-exact comparison); every program run on events whose argument is the operand, operand +-1, +-2^32, with high/low halves swapped or equal, all-ones, 0 and random, against the extracted decide (i.e. rel); non-trivial = accepted policy with events evaluated",
                      replay=replay, npol=(500, 8000), nev=(40, 80), foreign_share=0.03, gen=gen)
    # the same stream through a 32-bit build of the library (GOARCH=386 binaries run on this host): the word offsets of
    # seccomp_data must not depend on the width of the build's machine word
    passes = [("386", False, 150 if ctx.tier == "quick" else 2000), ("386", True, 80 if ctx.tier == "quick" else 800), (None, True, 80 if ctx.tier == "quick" else 800)]
    for (ga, native, npol2) in passes:
        if replay and (replay.get("goarch") != (ga or "host") or bool(replay.get("native_endian")) != native):
            continue
        # (a) a 32-bit build with the byte order set by the hook, (b) the same build and (c) the host build with the byte
        # order the library determines itself
        res = policy_stream(ctx, "C02", ["single_cond", "single_cond", "cond", "pair_cond"], npol2, 30, goarch=ga, salt=386 + (7 if native else 0) + (1 if ga else 0),
                            foreign_share=0.03, replay=replay, native_endian=native)
        if res is not None:
            for c in res["cases"].values():
                c["line"] = c["line"]
            before = len(ctx.violations)
            label = "single-condition policies compiled by a %s build%s (C02)" % ("GOARCH=386" if ga else "host", " with the byte order the library determines itself" if native else "")
            ndiff, nbad = report_case_failures(ctx, res["cases"], label,
                                               describe=lambda cid: dict(res["meta"].get(cid) or {}, goarch=ga or "host", native_endian=native))
            for path, _ in ctx.violations[before:]:
                with open(path) as f:
                    body = json.load(f)
                body["goarch"] = ga or "host"
                body["native_endian"] = native
                with open(path, "w") as f:
                    json.dump(body, f, indent=1, sort_keys=True)
                    f.write("\n")
            key = "%s_build%s" % (ga or "host", "_native_byte_order" if native else "")
            ctx.coverage["programs_" + key] = int(res["summary"]["cases"])
            ctx.coverage["events_" + key] = int(res["summary"]["events"])
            ctx.coverage["evaluations"] = ctx.coverage.get("evaluations", 0) + int(res["summary"]["cases"]) + int(res["summary"]["events"])
            ctx.coverage["counterexamples"] = ctx.coverage.get("counterexamples", 0) + nbad
            ctx.coverage["correspondence_differences"] = ctx.coverage.get("correspondence_differences", 0) + ndiff


# ------------------------------------------------------------------------------------------------ C03
def check_C03(ctx, replay=None):
    ctx.ensure_theories()
    gen, log = ctx.regenerate()
    if gen is None:
        ctx.regen_failed = "regeneration failed: " + log[-2000:]
    check_core_policy(ctx, "C03", "C03.v",
                      ["C03_compiled_program_is_decide", "C03_match_is_for_own_syscall", "C03_any_satisfied_list_matches", "C03_group_matches_iff", "C03_failing_condition_blocks_entry",
                       "C03_unmatched_entry_as_absent", "C03_programs_agree_without_unmatched_entry",
                       "C03_source_entry_is_the_model", "C03_source_merge_is_the_model", "C03_validated_entries_nondegenerate", "C03_nonvacuous"],
                      ["cond", "cond", "mixed", "mixed", "mixed_long", "condlong", "altmany", "pair_cond", "value_list"],
                      "policies mixing unconditional and conditional entries (1..4 groups, repeated names merged into OR lists, related alternatives of one syscall - sub-list, longer list, same list, permuted, one operand or operation changed - in either order, 1..85 conditions per list, repeated arguments, the same syscall in several groups; the four tables and the x32 table, whose numbers carry a mask - events then also use the numbers without the mask), compiled by the implementation and the extracted model (instruction-exact comparison); every accepted program run on events aimed at each list (satisfying / nearly satisfying every condition) and on events whose argument words equal other entries' syscall numbers and operands, against the extracted decide; non-trivial = accepted policy with conditional entries and events evaluated",
                      replay=replay, npol=(400, 4000), nev=(50, 100), gen=gen,
                      arches=PolicyGen.TABLE_ARCHES * 2 + ["X32"])


# ------------------------------------------------------------------------------------------------ C04
def _prologue_projection(text):
    """The observables C04 speaks about: the architecture test (either encoding), the instruction its jump lands on,
    the syscall-number load and the x32 guard."""
    f = text.split()
    if len(f) < 2 or f[0] != "OK":
        return text[:60]
    ins = f[2:]
    out = []
    if len(ins) < 3:
        return " ".join(ins)
    out.append(ins[0])
    out.append(ins[1])
    j = ins[1].split(":")
    pos = 2
    land = None
    if j[0] == "jif" and j[1] == "ne":
        land = 2 + int(j[3])
    elif j[0] == "jif" and j[1] == "eq" and ins[2].startswith("ja:"):
        out.append(ins[2])
        land = 3 + int(ins[2].split(":")[1])
        pos = 3
    out += ins[pos:pos + 3]      # ld nr, and the x32 guard when present
    out.append("land=" + (ins[land] if land is not None and land < len(ins) else "OUT"))
    return " ".join(out)


def _c04_extras(pg, rng):
    """Programs so long that the distance of the architecture jump needs more than 16 bits (the compiler has no size limit
    of its own; the kernel's limit of 4096 is C07's business): foreign events must still reach the final return."""
    out = []
    for k, (an, ng) in enumerate((("AARCH64", 330), ("X86_64", 328))):
        tbl = [s for (_, s) in pg.arches[an]["table"]]
        groups = [dict(action=rng.choice([0x7fff0000, 0x50000, 0x7ffc0000]), names=rng.sample(tbl, 199), nwc=[]) for _ in range(ng)]
        pol = dict(default=0x30000, groups=groups, arch=an, kind="huge")
        cid = "xh%d" % k
        evs = pg.events(pol, 30, foreign_share=0.7, x32_share=0.3)
        out.append((cid, "P %s 1 %s %s" % (cid, an, PolicyGen.tokens(pol)), evs, dict(kind="huge", arch=an, defect=None, le=1, groups=ng)))
    return out


def check_C04(ctx, replay=None):
    def differs(c):
        return _prologue_projection(c.get("model", "")) != _prologue_projection(c["go"])
    ctx.ensure_theories()
    gen, log = ctx.regenerate()
    if gen is None:
        ctx.regen_failed = "regeneration failed: " + log[-2000:]
    check_core_policy(ctx, "C04", "C04.v",
                      ["C04_foreign_arch_default", "C04_x32_enosys", "C04_independent_of_rules", "C04_prologue_both_encodings",
                       "C04_source_layout_is_the_model", "C04_source_x32_guard_is_the_model", "C04_nonvacuous"],
                      ["names", "names_long", "names_long", "names_long", "cond", "mixed", "mixed_long", "condlong", "degenerate", "whole_table"],
                      "policies of every kind sized so that the architecture jump distance straddles 255/256 (name lists of 245..260 and longer, conditional entries), all four tables and the x32 table (same audit word as x86_64: the guard applies); compared with the extracted model on the prologue, the instruction the architecture jump lands on and the x32 guard; every accepted program run ONLY on events of a foreign architecture (all audit ids of the package, bit flips of the native id, random words) and, natively, numbers with the x32 bit (0x40000000, |n, 0xFFFFFFFF, ...) or just below it, against the extracted decide; non-trivial = accepted policy with events evaluated",
                      replay=replay, npol=(400, 4000), nev=(40, 80), foreign_share=0.6, x32_share=0.4, diff_filter=differs, gen=gen,
                      arches=PolicyGen.TABLE_ARCHES * 2 + ["X32"], extra_cases=_c04_extras, ambient_kinds=["names", "cond", "names_long"])


# ------------------------------------------------------------------------------------------------ C05
def _damage(rng, raw):
    """Systematically damaged variants of a raw program with the verdict left to the model."""
    prog = [list(map(int, t.split(":"))) for t in raw]
    n = len(prog)
    kind = rng.choice(["jt_out", "jf_out", "ja_out", "ld_unaligned", "ld_64", "ld_big", "opcode", "last_not_ret", "empty", "over_4096",
                       "none", "div0", "mem", "jt_edge", "len_short"])
    i = rng.randrange(n)
    if kind in ("jt_out", "jf_out", "jt_edge"):
        js = [x for x in range(n) if prog[x][0] in (21, 37, 53, 69)]
        if not js:
            return None
        i = rng.choice(js)
        rest = n - i - 1
        v = rest if kind != "jt_edge" else max(0, rest - 1)
        if v > 255:
            return None
        prog[i][1 if kind != "jf_out" else 2] = v
    elif kind == "ja_out":
        prog.insert(i, [5, 0, 0, rng.choice([n - i, n - i + 1, 0xffffffff, n - i - 1 if n - i - 1 >= 0 else 0])])
    elif kind in ("ld_unaligned", "ld_64", "ld_big"):
        prog.insert(i, [32, 0, 0, {"ld_unaligned": rng.choice([1, 2, 3, 5, 18, 61]), "ld_64": rng.choice([64, 68, 100]),
                                   "ld_big": rng.choice([0xfffff000, 0xffffffff, 0xfffff004, 1 << 31])}[kind]])
    elif kind == "opcode":
        prog.insert(i, [rng.choice([0x28, 0x30, 0x40, 0x48, 0x50, 0xb1, 0x94, 0x9c, 0x80, 0x81, 0x87, 0x07, 0x04, 0x1c, 0xffff, 0x16, 0x18, 0x61, 0x02]), 0, 0, rng.choice([0, 1, 15, 16])])
    elif kind == "last_not_ret":
        prog.append([32, 0, 0, 0])
    elif kind == "empty":
        prog = []
    elif kind == "over_4096":
        prog = [[32, 0, 0, 0]] * (4097 - n if n < 4097 else 1) + prog
    elif kind == "div0":
        prog.insert(i, [rng.choice([0x34, 0x94, 0x64, 0x74]), 0, 0, rng.choice([0, 1, 31, 32])])
    elif kind == "mem":
        prog.insert(i, [rng.choice([0x60, 0x61, 0x02, 0x03]), 0, 0, rng.choice([0, 15, 16])])
    elif kind == "len_short":
        if n < 2:
            return None
        prog = prog[:rng.randrange(1, n)]
    return kind, ["%d:%d:%d:%d" % tuple(x) for x in prog]


def check_C05(ctx, replay=None):
    rng = random.Random(ctx.seed * 1000003 + 5005)
    theorems = C05_THEOREMS
    res = check_core_policy(ctx, "C05", "C05.v", theorems,
                            ["names", "names_long", "cond", "mixed", "mixed_long", "condlong", "degenerate", "degenerate", "whole_table", "altmany"],
                            "policies of every kind including degenerate ones (groups without names, one name, the whole table, 85-condition lists, programs over 4096 instructions), all four tables, both byte orders: the implementation's program, raw-encoded by the extracted encoder, is judged by the extracted kernel_check (a port of bpf_check_classic + seccomp_check_filter, proved sound in Coq) and its returns are compared with the closed set; the kernel_check model itself is validated against the RUNNING kernel on the implementation's programs and on systematically damaged variants (out-of-range jt/jf/k, unaligned / >=64 / negative load offsets, foreign opcodes, no final return, length 0 and 4097, truncations) offered to seccomp(2) in throw-away child processes; non-trivial = distinct accepted programs judged + distinct damaged variants on which kernel and model were compared",
                            replay=replay, npol=(300, 4000), nev=(10, 30))
    if res is None:
        return
    cases = dict(res["cases"])
    nbad = ctx.coverage.get("counterexamples", 0)
    # policies carrying a defect: the property quantifies over every policy for which Assemble returns nil error, so a
    # defective policy that the implementation (wrongly) accepts has its program judged as well
    if not replay:
        from gencases import PolicyGen as PG
        res2 = policy_stream(ctx, "C05", ["cond", "cond", "mixed", "condlong", "degenerate"], 120 if ctx.tier == "quick" else 2000, 0,
                             defects=["argidx", "badop", "empty_conds", "dup_name", "cond_uncond"], defect_share=1.0)
        if res2 is not None:
            for cid, c in res2["cases"].items():
                cases["x" + cid] = c
                res["meta"]["x" + cid] = res2["meta"].get(cid)
            ctx.coverage["defective_policies_offered"] = len(res2["cases"])
            ctx.coverage["defective_policies_accepted_by_impl"] = sum(1 for c in res2["cases"].values() if c["go"].startswith("OK"))
    if not replay:
        # programs emitted by a 32-bit build of the library (linux/386, byte order as the library determines it): the same
        # judgement - the layout of seccomp_data does not depend on the build's word size
        res3 = policy_stream(ctx, "C05", ["cond", "cond", "mixed", "single_cond"], 80 if ctx.tier == "quick" else 800, 0, goarch="386", native_endian=True, salt=5386)
        if res3 is not None:
            for cid, c in res3["cases"].items():
                cases["b386" + cid] = c
                res["meta"]["b386" + cid] = dict(res3["meta"].get(cid) or {}, goarch="386")
            ctx.coverage["programs_of_a_386_build_judged"] = len(res3["cases"])
    judged = 0
    raws = {}
    for cid, c in cases.items():
        if not c["go"].startswith("OK"):
            continue
        kc = c.get("kcheck")
        if kc is None:
            continue
        judged += 1
        n = int(c["go"].split()[1])
        valid, closed, raw = kc
        raws[cid] = raw.split()
        if (not valid and n <= 4096) or closed != "closed":
            nbad += 1
            p = ctx.violation("counterexample", dict(case=c["line"].split(" | ")[0], go_result=summarize_go(c["go"]),
                                                     what=("the emitted program (<= 4096 instructions) is rejected by the kernel's filter verifier (model kernel_check)" if not valid and n <= 4096 else
                                                           "the emitted program can return a value outside {default, group actions, ERRNO|ENOSYS}: " + closed),
                                                     description=res["meta"].get(cid)), True)
            rewrite_with_replay_cmd(ctx, p)
    # validate kernel_check against the running kernel
    st = res["stream"]
    probes = []
    kinds = {}
    ids = sorted(raws)
    budget = 150 if ctx.tier == "quick" else 1500
    for cid in ids[:budget // 3]:
        if len(raws[cid]) <= 4200:
            probes.append(("g" + cid, "asis", raws[cid]))
    tries = 0
    while len(probes) < budget and ids and tries < budget * 5:
        tries += 1
        cid = rng.choice(ids)
        if len(raws[cid]) > 600:
            continue
        d = _damage(rng, raws[cid])
        if d is None:
            continue
        probes.append(("d%d" % len(probes), d[0], d[1]))
    lines = ["R %s %d %s" % (pid, len(raw), " ".join(raw)) for (pid, kind, raw) in probes]
    if replay and replay.get("raw"):
        lines = [replay["raw"]]
        probes = [(replay["raw"].split()[1], "replay", replay["raw"].split()[3:])]
    kernel = {}
    if lines:
        r = ctx.run_harness(["kprobe"], "\n".join(lines) + "\n", timeout=900)
        for ln in r.stdout.splitlines():
            f = ln.split()
            if f and f[0] == "R":
                kernel[f[1]] = " ".join(f[2:])
        d = ctx.run_driver("\n".join(lines) + "\n")
        model = {}
        for ln in d.stdout.splitlines():
            f = ln.split()
            if f and f[0] == "R":
                model[f[1]] = f[2] == "valid"
        kdiff = 0
        for (pid, kind, raw) in probes:
            kinds[kind] = kinds.get(kind, 0) + 1
            kv = kernel.get(pid, "UNKNOWN missing")
            mv = model.get(pid)
            if kv.startswith("UNKNOWN") or mv is None:
                continue
            accepted = kv == "ACCEPT"
            if accepted != mv:
                kdiff += 1
                if kdiff <= 3:
                    found = pid.startswith("g") and not accepted     # an emitted program the real kernel refuses
                    if found:
                        nbad += 1
                    p = ctx.violation("counterexample" if found else "correspondence",
                                      dict(stream="kernel_check model vs seccomp(2) of the running kernel", variant=kind,
                                           raw="R %s %d %s" % (pid, len(raw), " ".join(raw[:5000])), kernel=kv, model="valid" if mv else "INVALID",
                                           what=("the running kernel refuses a program the compiler emitted" if found else
                                                 "the kernel verifier model disagrees with the running kernel on this program")), found)
                    rewrite_with_replay_cmd(ctx, p)
        ctx.coverage["kernel_probes"] = len(probes)
        ctx.coverage["kernel_model_disagreements"] = kdiff
        ctx.coverage["traces_validated_against_impl"] = len([1 for (pid, k, r) in probes if not kernel.get(pid, "UNKNOWN").startswith("UNKNOWN")])
        ctx.coverage["input_distribution"]["kernel_probe_kinds"] = kinds
        ctx.coverage["input_distribution"]["kernel_verdicts"] = {v: sum(1 for x in kernel.values() if x == v) for v in set(kernel.values())}
    ctx.coverage["programs_judged_by_kernel_check"] = judged
    ctx.coverage["counterexamples"] = nbad
    ctx.coverage["distinct_nontrivial"] = len(set(" ".join(r) for r in raws.values())) + len(set(" ".join(r) for (_, k, r) in probes if k != "asis"))


C05_THEOREMS = ["C05_compiled_kernel_valid", "C05_jumps_fit_byte", "C05_raw_encoding_preserves_meaning", "C05_return_set_closed",
                "C05_compiled_no_fault", "C05_kernel_check_sound", "C05_loads_total", "C05_nonvacuous"]


# ------------------------------------------------------------------------------------------------ C07
def check_C07(ctx, replay=None):
    from gencases import PolicyGen as PG
    theorems = C07_THEOREMS
    ctx.ensure_theories()
    gen, log = ctx.regenerate()
    if gen is None:
        ctx.broken = "regeneration failed: " + log[-2000:]
        ctx.obligations += [t for t in theorems if t not in ctx.obligations]
    else:
        proof_step(ctx, "C07.v", theorems, gen=gen)
    q = ctx.tier == "quick"
    def extras(pg, rng):
        """Deterministic boundary cases next to the random stream."""
        out = []
        tbl = [s for (_, s) in pg.arches["X86_64"]["table"]]
        allow, errno = 0x7fff0000, 0x50000
        # every class of default action that is not one of the named constants: a named action carrying data bits, the
        # action bits of SECCOMP_RET_USER_NOTIF, small integers, everything set
        k = 0
        for d in [errno | 1, errno | 38, errno | 0xffff, errno | 0x8000, 0x30000 | 1, 0x7ff00000 | 5, 0x7ffc0000 | 1, allow | 1, 0x80000000 | 1,
                  0x7fc00000, 1, 2, 0xffff, 0x10000, 0x40000, 0x60000, 0xffffffff, 0x7fffffff, 0x80050000, 0x00050001]:
            pol = dict(default=d, groups=[dict(action=rng.choice([allow, errno]), names=rng.sample(tbl, 3), nwc=[])], arch="X86_64", kind="unnamed_default")
            cid = "xd%d" % k
            k += 1
            out.append((cid, "P %s 1 X86_64 %s" % (cid, PG.tokens(pol)), [], dict(kind="unnamed_default", arch="X86_64", defect="default_unnamed", le=1, groups=1)))
        # valid policies whose programs have every length around the kernel's limit of 4096 instructions (groups of 200
        # names: no jump needs a bridge, so one more name is one more instruction)
        base = [dict(action=errno if i % 2 else allow, names=rng.sample(tbl, 200), nwc=[]) for i in range(20)]
        for j in range(52, 86):
            pol = dict(default=errno, groups=base + [dict(action=allow, names=tbl[:j], nwc=[])], arch="X86_64", kind="limit_ladder")
            cid = "xl%d" % j
            out.append((cid, "P %s 1 X86_64 %s" % (cid, PG.tokens(pol)), [], dict(kind="limit_ladder", arch="X86_64", defect=None, le=1, groups=21)))
        # every hand-picked unknown name ONCE as the only unknown name of its group, in each of the two lists, in front of,
        # between and behind valid names
        k = 0
        for b in ["", " ", "nosuchcall", "READ", "read ", " read", "exit\x00", "open\n", "\tread", "\xff\xfe", "%d%s", "x32_read", "getpid2", "0", "read,write"]:
            for where in ("names_first", "names_last", "names_only", "cond_name"):
                good = rng.sample(tbl, 2)
                if where == "cond_name":
                    g = dict(action=errno, names=good, nwc=[dict(name=b, conds=[(0, "Eq", 1)])])
                else:
                    g = dict(action=errno, names={"names_first": [b] + good, "names_last": good + [b], "names_only": [b]}[where], nwc=[])
                pol = dict(default=allow, groups=[dict(action=errno, names=rng.sample(tbl, 2), nwc=[]), g], arch="X86_64", kind="one_unknown_name")
                cid = "xu%d" % k
                k += 1
                out.append((cid, "P %s 1 X86_64 %s" % (cid, PG.tokens(pol)), [], dict(kind="one_unknown_name", arch="X86_64",
                                                                                     defect="unknown_cond_name" if where == "cond_name" else "unknown_name", le=1, groups=2)))
        return out
    res = policy_stream(ctx, "C07", ["names", "cond", "mixed", "mixed", "degenerate", "condlong", "names_long"],
                        400 if q else 6000, 0, defects=PG.DEFECTS, defect_share=0.6, replay=replay,
                        arches=PG.TABLE_ARCHES + ["X32"], extra_cases=extras)
    if res is None:
        return
    cases, meta = res["cases"], res["meta"]
    nbad = ndiff = 0
    rep = 0
    classes = {}
    for cid, c in cases.items():
        m = meta.get(cid) or {}
        go = c["go"]
        gclass = "OK" if go.startswith("OK") else go.split(" | ")[0]
        mclass = "OK" if c["corr"] == "same" and go.startswith("OK") else None
        model = c.get("model", go if c["corr"] == "same" else "")
        mclass = "OK" if model.startswith("OK") else model
        key = "%s->%s" % (m.get("defect") or ("notable" if m.get("arch") not in PG.TABLE_ARCHES else "valid"), gclass.split()[0] + (" " + gclass.split()[1] if len(gclass.split()) > 1 else ""))
        classes[key] = classes.get(key, 0) + 1
        # direct search against the property text (independent of the model)
        bad = None
        if go.startswith("PANIC"):
            bad = "the compiler panicked"
        elif go.startswith("ERR_WITH_PROGRAM"):
            bad = "an error was returned together with a program"
        elif m:
            notable = m.get("arch") not in PG.TABLE_ARCHES and m.get("arch") != "X32"
            if (m.get("defect") or notable) and go.startswith("OK"):
                bad = "a policy with the defect '%s' was accepted" % (m.get("defect") or "architecture without syscall table")
            elif not m.get("defect") and not notable and not go.startswith("OK"):
                # the property promises acceptance only for programs that fit the kernel's limit of 4096 instructions
                mlen = int(model.split()[1]) if model.startswith("OK ") and model.split()[1].isdigit() else None
                if mlen is None or mlen <= 4096:
                    bad = "a policy free of the listed defects%s was rejected: %s" % (" (its program has %d instructions)" % mlen if mlen else "", go[:80])
            elif notable and not m.get("defect") and "unsupported_arch" not in go and "problems" not in go:
                pass
        if bad:
            nbad += 1
            if rep < 3:
                rep += 1
                p = ctx.violation("counterexample", dict(case=c["line"].split(" | ")[0], go_result=summarize_go(go), what=bad, description=m), True)
                rewrite_with_replay_cmd(ctx, p)
        # correspondence on the projected observable: accepted / error class
        if mclass != gclass and not (mclass == "OK" and gclass == "OK") and not (mclass.startswith("ERR") and gclass.startswith("ERR ")):
            if (mclass.startswith("OK")) != (gclass.startswith("OK")) or mclass != gclass:
                ndiff += 1
                if rep < 3 and not bad:
                    rep += 1
                    found = mclass == "OK" and not go.startswith("OK")
                    p = ctx.violation("counterexample" if found else "correspondence",
                                      dict(case=c["line"].split(" | ")[0], stream="accept / error class (C07)", model_result=mclass[:200], go_result=gclass[:200],
                                           what="the implementation refuses an input the proved model accepts" if found else "model and implementation classify this policy differently", description=m), found)
                    rewrite_with_replay_cmd(ctx, p)
                    if found:
                        nbad += 1
    policy_coverage(ctx, res, "valid policies of every kind and the same policies with ONE defect injected at a random position (unnamed default action, no groups, unknown name in either list - empty, wrong case, trailing blank, NUL, invalid UTF-8 -, duplicate name, conditional+unconditional, argument index 6/7/100/2^31/2^32-1, operation outside the eight constants incl. '' and wrong case, empty condition list), plus policies for architectures without tables, plus deterministic boundary cases: 20 default actions that are named constants carrying data bits / the user-notify bits / small integers, and valid policies whose programs have every length from about 4080 to 4110 instructions; compared with the extracted model on accepted / error class / panic; judged directly against the property text (defect => error without program, no defect => accepted, never a panic); non-trivial = distinct policies carrying a defect that were judged",
                    lambda cid, c: bool((meta.get(cid) or {}).get("defect")))
    ctx.coverage["input_distribution"]["outcome_by_defect"] = classes
    ctx.coverage["correspondence_differences"] = ndiff
    ctx.coverage["counterexamples"] = nbad
    if not replay or replay.get("ambient"):
        # valid policies are accepted (and nothing dies) whatever the process environment holds
        ambient_passes(ctx, "C07", ["names", "cond", "mixed", "degenerate"], replay=replay if replay and replay.get("ambient") else None, nev=0)
        nbad = ctx.coverage.get("counterexamples", nbad)
    finish_with_proof_status(ctx, nbad, "C07 theorems")


C07_THEOREMS = ["C07_defects_are_these", "C07_reject_iff", "C07_error_class", "C07_accepts", "C07_generated_code_assembles",
                "C07_no_rule_dropped", "C07_unsupported_arch", "C07_records_with_tables", "C07_source_validation_is_the_model",
                "C07_source_conditions_check_is_the_model", "C07_source_policy_validation_is_the_model", "C07_nonvacuous"]

CHECKS.update({"C02": check_C02, "C03": check_C03, "C04": check_C04, "C05": check_C05, "C07": check_C07})
