"""Checks for the compiler core: C01-C07 (policy compiler, assembler)."""
import json
import os
import random
import re
import time

from common import REPO, VERIF, load_known_findings
from gencases import BuilderGen, PolicyGen, parse_header, OPS, M32, M64


# ------------------------------------------------------------------------------------------------ stream runner
class Stream:
    """Runs case lines through the real code (harness compile) and the extracted model/specification (driver)."""

    def __init__(self, ctx):
        self.ctx = ctx
        self.header = None

    def load_header(self):
        r = self.ctx.run_harness(["compile"], "")
        if r.returncode != 0:
            raise RuntimeError("harness compile failed: " + r.stderr[-2000:])
        self.header = r.stdout
        return parse_header(r.stdout)

    def run(self, lines):
        """lines: list of case lines (B/P followed by their V lines). Returns (cases, summary) where cases maps
        id -> dict(line=annotated line, corr='same'|'DIFF', model=..., go=..., events=[(idx, ok, want, got, vline)])."""
        inp = "\n".join(lines) + "\n"
        r = self.ctx.run_harness(["compile"], inp)
        if r.returncode != 0:
            raise RuntimeError("harness compile failed: " + r.stderr[-2000:])
        annotated = r.stdout
        d = self.ctx.run_driver(annotated)
        if d.returncode != 0:
            raise RuntimeError("driver failed: " + d.stderr[-2000:])
        cases = {}
        cur = None
        vlines = {}
        for ln in annotated.splitlines():
            if ln.startswith("B ") or ln.startswith("P "):
                cur = ln.split(" ", 2)[1]
                cases[cur] = dict(line=ln, corr=None, events=[], go=ln.split(" | ", 1)[1] if " | " in ln else "")
                vlines[cur] = []
            elif ln.startswith("V ") and cur is not None:
                vlines[cur].append(ln)
        summary = None
        errors = [ln for ln in d.stdout.splitlines() if ln.startswith("X ")]
        if errors:
            raise RuntimeError("driver reported errors: " + "; ".join(e[:300] for e in errors[:3]))
        for ln in d.stdout.splitlines():
            if ln.startswith("C "):
                f = ln.split(" ", 3)
                cid = f[1]
                cases[cid]["corr"] = f[2]
                if f[2] == "DIFF":
                    m, g = f[3].split(" ## ", 1)
                    cases[cid]["model"] = m
            elif ln.startswith("E "):
                f = ln.split(" ", 4)
                cid, idx, ok = f[1], int(f[2]), f[3] == "ok"
                want = got = None
                if not ok:
                    mm = re.match(r"want=(\S+) got=(\S+)", f[4])
                    want, got = mm.group(1), mm.group(2)
                cases[cid]["events"].append((idx, ok, want, got, vlines[cid][idx]))
            elif ln.startswith("S "):
                summary = dict(kv.split("=") for kv in ln.split()[1:])
            elif ln.startswith("X "):
                errors.append(ln)
        if errors:
            raise RuntimeError("driver reported errors: " + "; ".join(errors[:3]))
        return cases, summary


def summarize_go(res):
    f = res.split()
    if not f:
        return "?"
    if f[0] == "OK":
        return "OK len=%s" % f[1]
    return res[:80]


def replay_cmd(prop, path):
    return "cd /verif && ./check %s --replay %s" % (prop, path)


def report_case_failures(ctx, cases, what, scope_filter=None, describe=None):
    """Turn correspondence differences and direct-search counterexamples into violations.
    Returns (n_diff, n_bad)."""
    ndiff = nbad = 0
    reported_diff = reported_bad = 0
    for cid, c in cases.items():
        bad_events = [e for e in c["events"] if not e[1]]
        if bad_events:
            nbad += len(bad_events)
            if reported_bad < 3:
                idx, _, want, got, vline = bad_events[0]
                payload = dict(case=c["line"].split(" | ")[0], event=vline, expected=want, actual=got,
                               go_result=summarize_go(c["go"]), what=what + ": the program emitted by the implementation disagrees with the specification on this event",
                               description=describe(cid) if describe else None)
                p = ctx.violation("counterexample", payload, True)
                rewrite_with_replay_cmd(ctx, p)
                reported_bad += 1
    for cid, c in cases.items():
        if c["corr"] == "DIFF":
            ndiff += 1
            if reported_diff < 3 and nbad == 0:
                model_ok = c.get("model", "").startswith("OK")
                go_ok = c["go"].startswith("OK")
                # the (proved) model accepts this input and the implementation refuses it or panics: the input itself
                # is the failing input. Two different accepted programs, or an input only the implementation accepts,
                # are a broken correspondence without a failing input.
                found = model_ok and not go_ok
                payload = dict(case=c["line"].split(" | ")[0], stream=what, model_result=c.get("model", "")[:4000],
                               go_result=c["go"][:4000],
                               what=("the implementation refuses (or panics on) an input that the proved model accepts" if found else
                                     "correspondence: the executable model and the implementation differ on this case; no event was found on which the implementation's program violates the specification"),
                               description=describe(cid) if describe else None)
                p = ctx.violation("counterexample" if found else "correspondence", payload, found)
                rewrite_with_replay_cmd(ctx, p)
                reported_diff += 1
    return ndiff, nbad


def rewrite_with_replay_cmd(ctx, path):
    with open(path) as f:
        body = json.load(f)
    body["how_to_replay"] = replay_cmd(ctx.prop, path)
    with open(path, "w") as f:
        json.dump(body, f, indent=1, sort_keys=True)
        f.write("\n")


def proof_step(ctx, prop_file, theorems, gen=None):
    """Compile the property file; a failure is a broken obligation (searched for a failing input by the caller's
    direct search, which always runs)."""
    ok, msg = ctx.ensure_theories()
    if not ok:
        ctx.broken = "framework build failed: " + msg[-1500:]
        return False
    res, log = ctx.check_properties_file(prop_file, theorems, gen=gen)
    failed = [(t, d) for t, (okk, d) in res.items() if not okk]
    if failed:
        ctx.broken = "; ".join("%s: %s" % (t, d) for t, d in failed) + "\n" + log[-1500:]
        return False
    ctx.broken = None
    return True


def finish_with_proof_status(ctx, nbad, what):
    """If a proof obligation is broken and the search found nothing, report no-failing-input-found."""
    if getattr(ctx, "broken", None) and nbad == 0 and not ctx.violations:
        p = ctx.violation("broken-obligation", dict(theorem_status=ctx.broken, what=what), False)
        rewrite_with_replay_cmd(ctx, p)
    elif getattr(ctx, "broken", None) and not any(not nf for _, nf in ctx.violations):
        pass


# ------------------------------------------------------------------------------------------------ C06
def check_C06(ctx, replay=None):
    rng = random.Random(ctx.seed * 1000003 + 6)
    proof_step(ctx, "C06.v", ["C06_build_correct", "C06_assemble_correct", "C06_never_out_of_reach", "C06_bridges_preserve_paths"])
    h, err = ctx.build_harness()
    if not h:
        p = ctx.violation("broken-obligation", dict(what="the harness does not build against the repository", log=err[-3000:]), False)
        return
    st = Stream(ctx)
    st.load_header()
    lines = []
    dist = {}
    if replay:
        lines = [replay["case"]] + ([replay["event"]] if replay.get("event") else [])
    else:
        bg = BuilderGen(rng)
        corpus = load_corpus("C06")
        lines += corpus
        nprog = 400 if ctx.tier == "quick" else 6000
        nev = 24 if ctx.tier == "quick" else 40
        for i in range(nprog):
            kind, nops, toks = bg.program()
            dist[kind] = dist.get(kind, 0) + 1
            lines.append("B b%d %d %d %s" % (i, rng.randint(0, 1), nops, toks))
            lines += bg.events(nev)
    cases, summary = st.run(lines)
    ndiff, nbad = report_case_failures(ctx, cases, "builder programs (C06)")
    # coverage
    ok_cases = [c for c in cases.values() if c["go"].startswith("OK")]
    bridged = 0
    distinct = set()
    for c in cases.values():
        distinct.add(c["line"].split(" ", 2)[2])
    err_classes = {}
    for c in cases.values():
        if not c["go"].startswith("OK"):
            err_classes[c["go"]] = err_classes.get(c["go"], 0) + 1
    for c in ok_cases:
        nops_real = sum(1 for t in c["line"].split(" | ")[0].split() if t in ("J", "T", "G", "R", "H", "L"))
        if int(c["go"].split()[1]) > nops_real:
            bridged += 1
    ctx.coverage.update(dict(
        evaluations=int(summary["cases"]) + int(summary["events"]),
        programs=int(summary["cases"]), events_run=int(summary["events"]),
        distinct_nontrivial=bridged,
        rule="builder call sequences from the seeded generator (sizes 1..1100 instructions, distances from {0..3,253..258,509..512,...}, shared and private labels, Jmp, malformed: unset/twice/backward/useless labels); non-trivial = assembled successfully AND needed at least one bridge; compared instruction-exactly with the extracted model, and every accepted program run on events against the label machine",
        correspondence_differences=ndiff, counterexamples=nbad,
        input_distribution=dict(kinds=dist, error_classes=err_classes, accepted=len(ok_cases), needed_bridges=bridged),
        samples=[c["line"][:300] for c in list(cases.values())[:2]],
    ))
    finish_with_proof_status(ctx, nbad, "C06 theorems over the assembler model")


def load_corpus(prop):
    d = os.path.join(VERIF, "corpus", prop)
    out = []
    if os.path.isdir(d):
        for fn in sorted(os.listdir(d)):
            with open(os.path.join(d, fn)) as f:
                out += [ln.rstrip("\n") for ln in f if ln.strip() and not ln.startswith("#")]
    return out


CHECKS = {"C06": check_C06}


# ------------------------------------------------------------------------------------------------ policy streams
def policy_stream(ctx, prop, kinds, npol, nev, arches=None, defects=None, le_choices=(0, 1), replay=None,
                  defect_share=0.0, foreign_share=0.15, extra_cases=None):
    """Generate policies of the given kinds, compile them with the implementation and the model, and run the
    implementation's programs on partition events against the specification. Returns dict with results."""
    rng = random.Random(ctx.seed * 1000003 + int(prop[1:]))
    h, err = ctx.build_harness()
    if not h:
        ctx.violation("broken-obligation", dict(what="the harness does not build against the repository", log=err[-3000:]), False)
        return None
    st = Stream(ctx)
    consts, arches_tbl = st.load_header()
    pg = PolicyGen(rng, consts, arches_tbl)
    lines = []
    meta = {}
    dist = {}
    if replay:
        lines = [replay["case"]] + ([replay["event"]] if replay.get("event") else [])
    else:
        lines += load_corpus(prop)
        for i in range(npol):
            kind = rng.choice(kinds)
            an = rng.choice(arches or PolicyGen.TABLE_ARCHES)
            defect = None
            if defects and rng.random() < defect_share:
                defect = rng.choice(defects)
            pol = pg.policy(archname=an, kind=kind, defect=defect)
            le = rng.choice(le_choices)
            cid = "p%d" % i
            meta[cid] = dict(kind=kind, arch=an, defect=defect, le=le, groups=len(pol["groups"]))
            key = kind + ("/" + defect if defect else "")
            dist[key] = dist.get(key, 0) + 1
            lines.append("P %s %d %s %s" % (cid, le, an, PolicyGen.tokens(pol)))
            if nev:
                lines += pg.events(pol, nev, foreign_share=foreign_share)
        for (cid, line, evs, m) in (extra_cases(pg, rng) if extra_cases else []):
            meta[cid] = m
            dist[m.get("kind", "extra")] = dist.get(m.get("kind", "extra"), 0) + 1
            lines.append(line)
            lines += evs
    cases, summary = st.run(lines)
    return dict(cases=cases, summary=summary, meta=meta, dist=dist, consts=consts, arches=arches_tbl)


def policy_coverage(ctx, res, rule, nontrivial):
    cases = res["cases"]
    lens = [int(c["go"].split()[1]) for c in cases.values() if c["go"].startswith("OK")]
    errs = {}
    for c in cases.values():
        if not c["go"].startswith("OK"):
            errs[c["go"]] = errs.get(c["go"], 0) + 1
    distinct = set(c["line"].split(" ", 2)[2].split(" | ")[0] for cid, c in cases.items() if nontrivial(cid, c))
    outcomes = {}
    for c in cases.values():
        for e in c["events"]:
            pass
    ctx.coverage.update(dict(
        evaluations=int(res["summary"]["cases"]) + int(res["summary"]["events"]),
        programs=int(res["summary"]["cases"]), events_run=int(res["summary"]["events"]),
        distinct_nontrivial=len(distinct), rule=rule,
        input_distribution=dict(kinds=res["dist"], error_classes=errs, accepted=len(lens),
                                program_length=dict(min=min(lens) if lens else 0, max=max(lens) if lens else 0,
                                                    over_255=sum(1 for x in lens if x > 255), over_4096=sum(1 for x in lens if x > 4096))),
        samples=[c["line"][:400] for c in list(cases.values())[:2]],
    ))


def check_core_policy(ctx, prop, prop_file, theorems, kinds, rule, replay=None, npol=(250, 4000), nev=(40, 80),
                      gen=None, **kw):
    proof_step(ctx, prop_file, theorems, gen=gen)
    q = ctx.tier == "quick"
    res = policy_stream(ctx, prop, kinds, npol[0] if q else npol[1], nev[0] if q else nev[1], replay=replay, **kw)
    if res is None:
        return None
    meta = res["meta"]
    ndiff, nbad = report_case_failures(ctx, res["cases"], "policies (%s)" % prop, describe=lambda cid: meta.get(cid))
    policy_coverage(ctx, res, rule, lambda cid, c: c["go"].startswith("OK") and len(c["events"]) > 0)
    ctx.coverage["correspondence_differences"] = ndiff
    ctx.coverage["counterexamples"] = nbad
    finish_with_proof_status(ctx, nbad, "%s theorems" % prop)
    return res


def check_C01(ctx, replay=None):
    check_core_policy(ctx, "C01", "C01.v", ["C01_first_matching_group", "C01_errno_carries_eperm", "C01_other_actions_exact"],
                      ["names", "names", "names_long", "whole_table", "degenerate"],
                      "name-only policies (1..6 groups, 0..|table| names, all four tables, both byte orders), compiled by the implementation and the extracted model (instruction-exact comparison); every accepted program run on partition events (numbers of all listed names +-1, boundary numbers, foreign architectures) against the extracted decide; non-trivial = accepted policy with events evaluated",
                      replay=replay)


CHECKS.update({"C01": check_C01})
