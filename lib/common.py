"""Shared plumbing of the checks: scratch directories, building the Go harness from the repository's
working tree, compiling regenerated / property Coq files, running the extracted model, verdicts and
evidence. Standard library only."""
import fcntl
import hashlib
import json
import os
import re
import shutil
import subprocess
import sys
import tempfile
import time

VERIF = os.path.dirname(os.path.dirname(os.path.abspath(__file__)))
REPO = os.environ.get("VERIF_REPO", "/repo")
COQ = os.path.join(VERIF, "coq")
THEORIES = os.path.join(COQ, "theories")
DRIVER = os.path.join(COQ, "extract", "driver")
GOENV = dict(os.environ, GOFLAGS="-mod=mod", GOPROXY="off", GOSUMDB="off", GOTOOLCHAIN="local",
             CGO_ENABLED=os.environ.get("CGO_ENABLED", "1"))

FORBIDDEN = re.compile(r"\b(Admitted|admit|Axiom|Axioms|Parameter|Parameters|Conjecture|Conjectures|"
                       r"Unset\s+Guard|bypass_check|Admit\s+Obligations|Unset\s+Positivity|Unset\s+Universe|"
                       r"type-in-type|impredicative-set)\b")


class Ctx:
    """One check run."""

    def __init__(self, prop, tier, seed):
        self.prop = prop
        self.tier = tier
        self.seed = seed
        self.t0 = time.time()
        base = "/dev/shm" if os.path.isdir("/dev/shm") and os.access("/dev/shm", os.W_OK) else tempfile.gettempdir()
        self.scratch = tempfile.mkdtemp(prefix="verif-%s-" % prop, dir=base)
        self.violations = []      # (replay_path, no_failing_input_found: bool)
        self.known = []           # KNOWN-FINDING lines
        self.obligations = []     # theorem names expected
        self.discharged = []      # theorem names compiled with acceptable assumptions
        self.axioms = {}          # theorem -> list of axioms reported
        self.coverage = {}
        self.assumptions = []
        self.notes = []
        self.harness = None

    def cleanup(self):
        shutil.rmtree(self.scratch, ignore_errors=True)

    def log(self, *a):
        print("[%s %6.1fs]" % (self.prop, time.time() - self.t0), *a, flush=True)

    # ---------------------------------------------------------------- replays / verdict
    def replay_dir(self):
        d = os.path.join(VERIF, "replays", self.prop)
        os.makedirs(d, exist_ok=True)
        return d

    def violation(self, kind, payload, found_input):
        """Record a violation. kind: 'counterexample' | 'broken-obligation' | 'correspondence'."""
        body = dict(property=self.prop, kind=kind, repo=REPO, seed=self.seed, tier=self.tier, **payload)
        text = json.dumps(body, indent=1, sort_keys=True)
        h = hashlib.sha256(text.encode()).hexdigest()[:12]
        path = os.path.join(self.replay_dir(), "%s-%s.json" % (kind, h))
        with open(path, "w") as f:
            f.write(text + "\n")
        self.violations.append((path, not found_input))
        return path

    # ---------------------------------------------------------------- Go harness
    def build_harness(self, race=False, goarch=None):
        """Build /verif/harness against the repository's current working tree with -tags verif
        (goarch: cross-build, e.g. "386" - such binaries run on this amd64 host)."""
        d = os.path.join(self.scratch, "harness" + ("-race" if race else "") + ("-" + goarch if goarch else ""))
        os.makedirs(d, exist_ok=True)
        src = os.path.join(VERIF, "harness")
        for fn in os.listdir(src):
            # cross-builds only need the compile command (the process-level commands are host-specific)
            if fn.endswith(".go") and (not goarch or fn in ("main.go", "common.go", "compile.go")):
                shutil.copy(os.path.join(src, fn), d)
        with open(os.path.join(src, "go.mod.tmpl")) as f:
            mod = f.read().replace("@REPO@", REPO)
        with open(os.path.join(d, "go.mod"), "w") as f:
            f.write(mod)
        shutil.copy(os.path.join(REPO, "go.sum"), d)
        out = os.path.join(d, "harness")
        cmd = ["go", "build", "-tags", "verif"] + (["-race"] if race else []) + ["-o", out, "."]
        env = dict(GOENV, GOARCH=goarch, CGO_ENABLED="0") if goarch else GOENV
        r = subprocess.run(cmd, cwd=d, env=env, capture_output=True, text=True, timeout=600)
        if r.returncode != 0:
            return None, r.stdout + r.stderr
        if not race and not goarch:
            self.harness = out
        return out, ""

    def run_harness(self, args, inp, timeout=600, harness=None, env=None, prefix=None):
        r = subprocess.run(list(prefix or []) + [harness or self.harness] + args, input=inp, capture_output=True, text=True,
                           timeout=timeout, env=env or GOENV)
        return r

    def run_driver(self, inp, timeout=1800):
        r = subprocess.run([DRIVER], input=inp, capture_output=True, text=True, timeout=timeout)
        return r

    # ---------------------------------------------------------------- Coq
    def ensure_theories(self):
        """The hand-written theories are built by setup_cmd; rebuild here if anything is stale."""
        lock = open(os.path.join(COQ, ".buildlock"), "w")
        fcntl.flock(lock, fcntl.LOCK_EX)
        try:
            r = subprocess.run(["make", "-C", VERIF, "-s", "framework"], capture_output=True, text=True, timeout=3000)
            if r.returncode != 0:
                return False, r.stdout[-4000:] + r.stderr[-4000:]
            return True, ""
        finally:
            fcntl.flock(lock, fcntl.LOCK_UN)
            lock.close()

    def grep_forbidden(self, paths):
        bad = []
        for p in paths:
            with open(p, encoding="utf-8", errors="replace") as f:
                text = f.read()
            # strip comments (non-nested is enough for our sources; nested handled by loop)
            prev = None
            while prev != text:
                prev = text
                text = re.sub(r"\(\*[^*(]*(?:\*(?!\))[^*(]*|\((?!\*)[^*(]*)*\*\)", " ", text)
            for m in FORBIDDEN.finditer(text):
                bad.append("%s: %s" % (p, m.group(0)))
        return bad

    def regenerate(self):
        """Run the translator on the repository's working tree; returns the directory with Gen*.v or None."""
        gen = os.path.join(self.scratch, "gen")
        os.makedirs(gen, exist_ok=True)
        tr = os.path.join(self.scratch, "translator")
        os.makedirs(tr, exist_ok=True)
        src = os.path.join(VERIF, "translator")
        for fn in os.listdir(src):
            if fn.endswith(".go"):
                shutil.copy(os.path.join(src, fn), tr)
        with open(os.path.join(tr, "go.mod"), "w") as f:
            f.write("module verif/translator\n\ngo 1.18\n")
        r = subprocess.run(["go", "build", "-o", "translator", "."], cwd=tr, env=GOENV, capture_output=True, text=True, timeout=600)
        if r.returncode != 0:
            return None, "translator build failed:\n" + r.stdout + r.stderr
        r = subprocess.run([os.path.join(tr, "translator"), "-repo", REPO, "-out", gen], env=GOENV, capture_output=True, text=True, timeout=900)
        if r.returncode != 0:
            return None, "translator failed:\n" + r.stdout[-3000:] + r.stderr[-3000:]
        ok, log = self.coqc([os.path.join(gen, f + ".v") for f in GEN_FILES], gen=gen)
        if not ok:
            return None, "generated files do not compile:\n" + log[-3000:]
        return gen, r.stdout

    def coqc(self, files, gen=None, timeout=1500):
        """Compile the given .v files (in order) inside the scratch directory. Returns (ok, log)."""
        logs = []
        for f in files:
            cmd = ["coqc", "-Q", THEORIES, "Seccomp", "-Q", os.path.join(COQ, "oracle"), "Oracle"]
            if gen:
                cmd += ["-Q", gen, "Gen"]
            cmd += ["-Q", os.path.join(self.scratch, "props"), "Props", f]
            try:
                r = subprocess.run(cmd, capture_output=True, text=True, timeout=timeout, cwd=os.path.dirname(f))
            except subprocess.TimeoutExpired:
                return False, "\n".join(logs) + "\nTIMEOUT compiling %s" % f
            logs.append(r.stdout + r.stderr)
            if r.returncode != 0:
                return False, "\n".join(logs)
        return True, "\n".join(logs)

    def check_properties_file(self, prop_file, theorems, gen=None, extra_files=(), allowed_axioms=()):
        """Copy coq/properties/<prop_file> into scratch, compile it (after extra_files) and check that every
        listed theorem is reported by Print Assumptions as closed (or depending only on allowed axioms).
        Returns dict theorem -> (ok, detail)."""
        props = os.path.join(self.scratch, "props")
        os.makedirs(props, exist_ok=True)
        src = os.path.join(COQ, "properties", prop_file)
        dst = os.path.join(props, prop_file)
        shutil.copy(src, dst)
        self.obligations += [t for t in theorems if t not in self.obligations]
        results = {}
        bad = self.grep_forbidden([src] + [os.path.join(THEORIES, x) for x in os.listdir(THEORIES) if x.endswith(".v")]
                                  + ([os.path.join(gen, x) for x in os.listdir(gen) if x.endswith(".v")] if gen else []))
        if bad:
            for t in theorems:
                results[t] = (False, "forbidden construct in sources: " + "; ".join(bad[:5]))
            return results, "forbidden constructs: " + "; ".join(bad)
        ok, log = self.coqc(list(extra_files) + [dst], gen=gen)
        if not ok:
            # find which theorem failed, if recognisable
            for t in theorems:
                results[t] = (False, "compilation failed")
            return results, log
        # parse Print Assumptions output: we print a marker line before each via `Print Assumptions thm.`
        # Coq prints either "Closed under the global context" or "Axioms:\n name : type ..."
        blocks = split_assumption_blocks(log)
        with open(src) as f:
            srctext = f.read()
        order = re.findall(r"Print\s+Assumptions\s+([A-Za-z0-9_']+)\s*\.", srctext)
        for t in theorems:
            if t not in order:
                results[t] = (False, "theorem %s has no Print Assumptions in %s" % (t, prop_file))
                continue
            if not re.search(r"(Theorem|Lemma|Corollary)\s+%s\b" % re.escape(t), srctext):
                results[t] = (False, "theorem %s is not stated in %s" % (t, prop_file))
                continue
            i = order.index(t)
            if i >= len(blocks):
                results[t] = (False, "no Print Assumptions output for %s" % t)
                continue
            b = blocks[i]
            if b["closed"]:
                results[t] = (True, "Closed under the global context")
                self.axioms[t] = []
            else:
                ax = b["axioms"]
                self.axioms[t] = ax
                if all(a in allowed_axioms for a in ax):
                    results[t] = (True, "axioms: " + ", ".join(ax))
                else:
                    results[t] = (False, "depends on axioms: " + ", ".join(ax))
        if self.tier == "thorough" and all(okk for okk, _ in results.values()):
            # independent re-check of the compiled property file and everything it depends on
            okc, detail = self.coqchk(os.path.splitext(prop_file)[0], gen)
            self.coverage["coqchk"] = detail
            if not okc:
                for t in list(results):
                    results[t] = (False, "coqchk: " + detail)
                log += "\ncoqchk: " + detail
        for t, (okk, _) in results.items():
            if okk and t not in self.discharged:
                self.discharged.append(t)
        return results, log

    def coqchk(self, module, gen=None, timeout=3000):
        """Run the independent checker on Props.<module> (compiled in scratch) and its whole dependency closure."""
        cmd = ["coqchk", "-silent", "-o", "-Q", THEORIES, "Seccomp", "-Q", os.path.join(COQ, "oracle"), "Oracle"]
        if gen:
            cmd += ["-Q", gen, "Gen"]
        cmd += ["-Q", os.path.join(self.scratch, "props"), "Props", "Props." + module]
        t0 = time.time()
        try:
            r = subprocess.run(cmd, capture_output=True, text=True, timeout=timeout)
        except subprocess.TimeoutExpired:
            return False, "timeout after %d s" % timeout
        out = r.stdout + r.stderr
        m = re.search(r"\* Axioms:\s*(.*?)\n\s*\n", out, re.S)
        axioms = m.group(1).strip() if m else "?"
        ok = r.returncode == 0 and axioms == "<none>" and "type-in-type: <none>" in out.replace("\n", " ") and "positivity is assumed: <none>" in out.replace("\n", " ")
        return ok, "exit %d, axioms: %s, %.0f s" % (r.returncode, axioms, time.time() - t0)

    # ---------------------------------------------------------------- evidence
    def write_evidence(self, level="proof", extra=None):
        if os.path.realpath(REPO) != "/repo":
            # self-test against a scratch copy (VERIF_REPO): evidence must only come from runs against /repo itself
            self.log("self-test run against %s: evidence file left untouched" % REPO)
            return
        cov = dict(self.coverage)
        cov.setdefault("obligations", len(self.obligations))
        cov.setdefault("discharged", len(self.discharged))
        cov.setdefault("obligation_names", self.obligations)
        cov.setdefault("discharged_names", self.discharged)
        cov.setdefault("axioms_per_theorem", self.axioms)
        cov.setdefault("checker_cmd", "coqc 8.16.1 (full .vo) on coq/theories + regenerated gen/ + coq/properties/%s.v; Print Assumptions per theorem" % self.prop)
        cov.setdefault("trusted_base", TRUSTED_BASE)
        if extra:
            cov.update(extra)
        ev = dict(property_id=self.prop, tier=self.tier, seed=self.seed, level=level, coverage=cov,
                  assumptions=self.assumptions, wall_s=round(time.time() - self.t0, 2),
                  violations=len(self.violations), known_findings=self.known, notes=self.notes, repo=REPO)
        d = os.path.join(VERIF, "evidence")
        os.makedirs(d, exist_ok=True)
        with open(os.path.join(d, "%s.json" % self.prop), "w") as f:
            json.dump(ev, f, indent=1, sort_keys=True)
            f.write("\n")

    def finish(self):
        for k in self.known:
            print(k)
        code = 0
        for path, nofail in self.violations:
            print("VIOLATION property=%s replay=%s%s" % (self.prop, path, " no-failing-input-found" if nofail else ""))
            code = 1
        if code == 0:
            self.log("PASS: %d/%d obligations discharged; %s" % (len(self.discharged), len(self.obligations),
                                                                  json.dumps({k: v for k, v in self.coverage.items() if isinstance(v, (int, float))})))
        self.cleanup()
        return code


GEN_FILES = ["GenTables", "GenArches", "GenNames", "GenStubs", "GenConsts", "GenSkeletons", "GenCodegen", "GenAmbient"]

TRUSTED_BASE = [
    "Coq 8.16.1 kernel (coqc; vm_compute used for reflection, no native_compute); coqchk in the thorough tier",
    "no axioms: every property theorem is 'Closed under the global context' unless axioms_per_theorem says otherwise",
    "translator /verif/translator (Go standard library: go/parser, go/types, go/constant) for the regenerated gen/*.v",
    "extraction with ExtrOcamlBasic only (Extract Inductive bool, option, unit, list, prod, sumbool, sumor; Extract Inlined Constant andb, orb), OCaml 4.13.1, coq/extract/driver.ml",
    "Go harness /verif/harness and the Python generators/diff (they bound what the correspondence has seen)",
    "modelled, not verified: golang.org/x/net/bpf instruction types and encoder, the Linux kernel, the Go runtime (see DESIGN.md section 8)",
]


def split_assumption_blocks(log):
    """Split coqc output into the answers of successive Print Assumptions commands."""
    blocks = []
    lines = log.splitlines()
    i = 0
    while i < len(lines):
        ln = lines[i]
        if ln.strip() == "Closed under the global context":
            blocks.append(dict(closed=True, axioms=[]))
            i += 1
        elif ln.strip() == "Axioms:":
            ax = []
            i += 1
            while i < len(lines):
                cur = lines[i]
                if cur.strip() in ("Closed under the global context", "Axioms:"):
                    break
                m = re.match(r"^([A-Za-z_][A-Za-z0-9_.']*)\s*(:.*)?$", cur)
                if m:
                    ax.append(m.group(1))
                elif not (cur.startswith(" ") or cur.strip() == ""):
                    break
                i += 1
            blocks.append(dict(closed=False, axioms=ax))
        else:
            i += 1
    return blocks


def load_known_findings():
    p = os.path.join(VERIF, "known_findings.json")
    if not os.path.exists(p):
        return []
    with open(p) as f:
        return json.load(f).get("findings", [])
