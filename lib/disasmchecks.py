"""Check for C16: syscall extraction from disassembly listings (cmd/seccomp-profiler/disasm).

(1) proof step: coq/properties/C16.v over coq/theories/Disasm*.v and the regenerated tables;
(2) correspondence: the extracted model (coq/extract/disasm_driver) against disasm.ExtractSyscalls
    (harness command `disasm`) on generated files, record by record; plus the models of Go's regexp,
    strconv.ParseInt, strings.Fields and bufio.Scanner against the library itself;
(3) direct search, independent of the model: the implementation's results against the site model the
    listings were generated from, and against the property's relations (no panic, error exactly when
    the text cannot be read to the end, prefix monotonicity, function scoping, table membership)."""
import hashlib
import os
import random
import re
import resource
import subprocess

from common import COQ
from corechecks import finish_with_proof_status, rewrite_with_replay_cmd
from datachecks import setup

DISASM_DRIVER = os.path.join(COQ, "extract", "disasm_driver")

C16_THEOREMS = ["C16_never_panics", "C16_total", "C16_read_error_is_error", "C16_long_line_is_error",
                "C16_done_means_complete", "C16_function_scoped", "C16_function_scoped_lines",
                "C16_append_monotone", "C16_reported_in_table", "C16_supported_records", "C16_other_architectures_refused",
                "C16_x32_refused", "C16_example"]

MAX_TOKEN = 65536

C16_TRUSTED_BASE = [
    "Coq 8.16.1 kernel (coqc, full .vo; vm_compute only in the examples and in the comparison of the two architecture ids)",
    "no axioms: every C16 theorem is 'Closed under the global context'",
    "translator /verif/translator for the regenerated GenTables.v / GenArches.v the theorems are instantiated with",
    "extraction with ExtrOcamlBasic only, OCaml 4.13.1, coq/extract/disasm_driver.ml (token parsing, hex, printing)",
    "Go harness /verif/harness/disasm.go and the generators of lib/disasmchecks.py (they bound what the correspondence has seen)",
    "modelled, not verified: bufio.Scanner/ScanLines with the 65536-byte limit, regexp (leftmost-first, greedy), strconv.ParseInt(s, 0, 64), "
    "strings.Fields/Contains/HasPrefix/Join -- each a Gallina function compared with the library itself on every run (library_cases) and through the whole parser",
    "os.Open / Read failures are an oracle in the model (failure after every prefix); the implementation is exercised with a directory and a missing file only",
]
C16_ASSUMPTIONS = [
    "int has 64 bits (int(num) is the identity): the harness runs on amd64",
    "a read error in the middle of a file cannot be provoked through the os.File path API on this host (a pty hang-up reads as EOF): "
    "the theorem covers every prefix, the implementation run covers offset 0 (directory) and scanner errors at every position",
]

SYSCALL_FUNCS = ["syscall.Syscall(SB)", "syscall.Syscall6(SB)", "syscall.rawVforkSyscall(SB)", "syscall.RawSyscall(SB)",
                 "syscall.RawSyscall6(SB)", "unix.RawSyscall(SB)", "unix.RawSyscall6(SB)", "unix.RawSyscallNoError(SB)",
                 "unix.Syscall(SB)", "unix.Syscall6(SB)", "unix.Syscall9(SB)", "unix.SyscallNoError(SB)"]

# the architecture records the package supports (x32 shares the audit id of x86_64 but has another table: refused)
PARSER_OF = {"I386": "I386", "X86_64": "X86_64"}
RAW_INS = {"I386": [b"INT $0x80", b"SYSENTER"], "X86_64": [b"SYSCALL"]}


def hx(b):
    return "x" + b.hex()


def unhx(t):
    return bytes.fromhex(t[1:])


def _big_stack():
    # the extracted scanner recurses once per byte of the text
    try:
        resource.setrlimit(resource.RLIMIT_STACK, (resource.RLIM_INFINITY, resource.RLIM_INFINITY))
    except (ValueError, OSError):
        pass


# ------------------------------------------------------------------------------------------------ running both sides
def _table_changes(out):
    """T/TN lines (tables of package arch when the harness process started) against U/UN lines (when it ended)."""
    def pairs(line, skip):
        f = line.split(" ")[skip:]
        return dict(zip(f[0::2], f[1::2]))
    tabs = {}
    for ln in out.splitlines():
        tag = ln.split(" ", 1)[0]
        if tag in ("T", "U", "TN", "UN"):
            key = ln.split(" ", 2)[1]
            tabs[(tag, key)] = pairs(ln, 5 if tag in ("T", "U") else 3)
    res = []
    for (tag, key), before in sorted(tabs.items()):
        if tag not in ("T", "TN"):
            continue
        after = tabs.get(("U" if tag == "T" else "UN", key))
        if after is None or after == before:
            continue
        dec = (lambda k, v: (int(k), unhx(v).decode("utf-8", "replace"))) if tag == "T" else (lambda k, v: (unhx(k).decode("utf-8", "replace"), int(v)))
        res.append(dict(table=key, map="SyscallNumbers" if tag == "T" else "SyscallNames",
                        added=[dec(k, after[k]) for k in after if k not in before][:5],
                        removed=[dec(k, before[k]) for k in before if k not in after][:5],
                        changed=[(dec(k, before[k]), dec(k, after[k])) for k in before if k in after and after[k] != before[k]][:5]))
    return res


class Runner:
    def __init__(self, ctx):
        self.ctx = ctx
        r = ctx.run_harness(["disasm"], "")
        if r.returncode != 0:
            raise RuntimeError("harness disasm failed: " + r.stderr[-2000:])
        self.header = "".join(ln + "\n" for ln in r.stdout.splitlines() if ln[:2] in ("A ", "T "))
        self.arch_ids = {}
        self.table_changes = []
        self.tables = {}
        for ln in self.header.splitlines():
            f = ln.split(" ")
            if f[0] == "A":
                self.arch_ids[f[1]] = (int(f[2]), int(f[3]))
            elif f[0] == "T":
                n = int(f[4])
                self.tables[f[1]] = {int(f[5 + 2 * i]): unhx(f[6 + 2 * i]) for i in range(n)}

    def run(self, lines):
        """Returns (go_results, model_results), one output line per input line."""
        if not lines:
            return [], []
        inp = "\n".join(lines) + "\n"
        g = self.ctx.run_harness(["disasm"], inp, timeout=3000)
        if g.returncode != 0:
            raise RuntimeError("harness disasm failed: " + g.stderr[-2000:])
        go = [ln for ln in g.stdout.splitlines() if ln[:2] not in ("A ", "T ") and ln[:3] not in ("TN ", "UN ") and ln[:2] != "U "]
        # package arch's tables after the parser has worked, against what they were when the process started
        ch = _table_changes(g.stdout)
        if ch and not self.table_changes:
            culprit = None
            for ln in [x for x in lines if x.startswith("C ")][:400]:
                g1 = self.ctx.run_harness(["disasm"], ln + "\n", timeout=300)
                c1 = _table_changes(g1.stdout) if g1.returncode == 0 else None
                if c1:
                    culprit, ch = ln, c1
                    break
            self.table_changes.append(dict(changes=ch, case=culprit, cases_in_process=len(lines)))
        # the model reads texts: a named pipe carrying a text is that text
        inp = "\n".join(re.sub(r"^(C \S+ \S+) fifo ", r"\1 file ", ln) for ln in lines) + "\n"
        m = subprocess.run([DISASM_DRIVER], input=self.header + inp, capture_output=True, text=True, timeout=3000,
                           preexec_fn=_big_stack)
        if m.returncode != 0:
            raise RuntimeError("disasm_driver failed: " + m.stderr[-2000:])
        mo = m.stdout.splitlines()
        bad = [ln for ln in mo if ln.startswith("X ")]
        if bad:
            raise RuntimeError("disasm_driver reported: " + bad[0][:300])
        if len(go) != len(lines) or len(mo) != len(lines):
            raise RuntimeError("output length mismatch: %d cases, %d harness lines, %d driver lines" % (len(lines), len(go), len(mo)))
        return go, mo


def parse_result(line):
    """'C id OK n ...' -> ('OK', [(num, name, caller, function, location, assembly)]) ; ('ERR', None) ; ('PANIC', msg)"""
    f = line.split(" ")
    st = f[2]
    if st == "OK":
        n = int(f[3])
        recs = []
        for i in range(n):
            b = 4 + 6 * i
            recs.append((int(f[b]),) + tuple(unhx(x) for x in f[b + 1:b + 6]))
        return "OK", recs
    if st == "PANIC":
        return "PANIC", unhx(f[3]).decode("utf-8", "replace") if len(f) > 3 else ""
    return st, None


def show_recs(res):
    st, v = res
    if st == "OK":
        return [dict(num=r[0], name=r[1].decode("utf-8", "replace"), caller=r[2].decode("utf-8", "replace"),
                     function=r[3].decode("utf-8", "replace"), location=r[4].decode("utf-8", "replace"),
                     assembly=r[5].decode("utf-8", "replace")) for r in v]
    return st if v is None else "%s %s" % (st, v)


# ------------------------------------------------------------------------------------------------ site model
class SiteModel:
    """Well-formed listings in the format of `go tool objdump`, generated from a model of syscall sites, so that
    the expected result is known by construction (without running any parser)."""

    FILLER = ["MOVQ SP, BP", "SUBQ $0x18, SP", "LEAQ 0x8(SP), AX", "JMP 0x401000", "RET", "NOPL 0(AX)(AX*1)",
              "CMPQ $0x0, AX", "MOVQ AX, 0x10(SP)", "MOVQ $0x5, 0x8(SP)", "MOVL $0x7, CX", "MOVQ $0x3, BX",
              "ADDQ $0x18, SP", "MOVQ 0x20(SP), AX", "CALL runtime.morestack_noctxt(SB)", "CALL main.helper(SB)",
              "TESTQ AX, AX", "JNE 0x40100f", "INT $0x3", "MOVUPS X0, 0(SP)", "PUSHQ BP", "POPQ BP", "XORL CX, CX",
              "MOVB $0x1, 0x18(SP)", "CALL syscall.Syscall.func1(SB)", "MOVQ $-0x1, 0x28(SP)"]
    NUMBER_FORMS = ["hex", "dec", "oct", "oct_o", "bin", "under", "upper", "plus"]

    def __init__(self, rng, arch, table, known=None):
        self.rng = rng
        self.arch = arch                 # parser: "I386" | "X86_64"
        self.table = table               # num -> name (bytes)
        self.known = sorted(table) if known is None else sorted(known)   # the numbers used for sites with a known number
        self.stats = {}

    def count(self, k):
        self.stats[k] = self.stats.get(k, 0) + 1

    def number(self):
        """-> (text, value or None if ParseInt rejects it, class)"""
        rng = self.rng
        c = rng.choice(["known"] * 10 + ["unknown", "unknown", "negative", "overflow", "garbage"])
        if c == "known":
            v = rng.choice(self.known)
            form = rng.choice(self.NUMBER_FORMS)
            if form == "hex":
                t = "0x%x" % v
            elif form == "dec":
                t = "%d" % v
            elif form == "oct":
                t = "0%o" % v
            elif form == "oct_o":
                t = rng.choice(["0o", "0O"]) + "%o" % v
            elif form == "bin":
                t = rng.choice(["0b", "0B"]) + bin(v)[2:]
            elif form == "under":
                d = "%x" % v
                t = "0x_" + "_".join(d) if rng.random() < 0.5 else "_".join("%d" % v)
            elif form == "upper":
                t = "0X%X" % v
            else:
                t = "+%d" % v
            self.count("number:" + form)
            return t, v, c
        if c == "unknown":
            while True:
                v = rng.choice([rng.randint(0, 3000), rng.randint(0, 2 ** 63 - 1), 2 ** 63 - 1, 2 ** 31, 2 ** 32 + 1])
                if rng.random() < 0.4:
                    # a table number with a foreign high bit (x32 bit, sign bits, bit 32, ...) or shifted: another number
                    k = rng.choice(self.known)
                    v = rng.choice([k | 0x40000000, k | 0x80000000, k | (1 << 32), k | (1 << 62), k | (1 << 31) | (1 << 30),
                                    k + 0x40000000, k << 8, k | 0x10000, k | 0x1000, k + 512, (k << 32) | k])
                if v not in self.table:
                    break
            self.count("number:unknown")
            return rng.choice(["0x%x", "%d"]) % v, v, c
        if c == "negative":
            v = -rng.choice([1, 2, 60, 2 ** 31, 2 ** 63])
            self.count("number:negative")
            return ("-0x%x" % -v) if rng.random() < 0.5 else "%d" % v, v, c
        if c == "overflow":
            self.count("number:overflow")
            return rng.choice(["0x8000000000000000", "9223372036854775808", "18446744073709551616", "0xffffffffffffffff",
                               "-9223372036854775809", "0x10000000000000000", "99999999999999999999999"]), None, c
        self.count("number:garbage")
        return rng.choice(["zz", "0x", "1__0", "_1", "08", "0b2", "1_", "0x1g", "main.x(SB)", "1 2", "$1", "0x_", "--1", "1e3"]), None, c

    def line(self, loc, addr, text, short=None):
        """one instruction line; short: None (full) | 3 | 2 | 1 | 0 fields in front of the instruction dropped"""
        rng = self.rng
        if short is None:
            sep = rng.choice(["\t", "\t", " ", "\t\t", "  "])
            lead, trail = "  ", rng.choice(["", "", "\t", " "])
            if rng.random() < 0.06:
                # heavily padded line (raw length far above the trimmed length)
                pad = rng.choice([" ", "\t", " \t"]) * rng.choice([20, 49, 60, 79, 80, 81, 100, 200])
                how = rng.choice(["trail", "lead", "both"])
                if how != "lead":
                    trail = pad
                if how != "trail":
                    lead = pad
                self.count("padded-line")
            return "%s%s%s0x%x%s%s%s%s%s" % (lead, loc, sep, addr, sep, "%02x" % rng.randint(0, 255) * rng.randint(1, 7), sep, text, trail)
        pre = ["%s" % loc, "0x%x" % addr, "0f05"][:short]
        return " ".join(pre + [text])

    def listing(self):
        """-> (text bytes, expected records, description). Expected records: (num, name, caller, function, location, assembly)."""
        rng = self.rng
        raw_ins = [x.decode() for x in RAW_INS[self.arch]]
        nfun = rng.choice([1, 2, 2, 3, 3, 4, 6, 10])
        lines, expected, desc = [], [], []
        addr = 0x401000
        src_line = 1
        pending_decoy = False
        for fi in range(nfun):
            wrapper = rng.random() < 0.12
            if wrapper:
                fname = rng.choice(SYSCALL_FUNCS)
            else:
                fname = rng.choice(["main.main(SB)", "main.f%d(SB)" % fi, "runtime.exit(SB)", "os.(*File).Read(SB)",
                                    "internal/poll.(*FD).Write(SB)", "syscall.Syscall.func1(SB)", "type..eq.[2]string(SB)",
                                    # Go symbol names may contain blanks (generic shapes, struct type helpers)
                                    "type..eq.struct { a int; b string }(SB)", "main.f[go.shape.struct { x int }](SB)",
                                    "main.(*T[go.shape.*uint8]).wake(SB)"])
            src = rng.choice(["/src/main.go", "/usr/lib/go/src/runtime/sys_linux_amd64.s", "/go/src/x y/z.go"])
            caller = "%s %s" % (fname, src)
            lines.append("TEXT " + caller)
            fdesc = dict(function=fname, wrapper=wrapper, sites=[])
            clean = True          # no line of this function since the last found site can match a regex
            nsites = rng.choice([0, 1, 1, 2, 3, 5])
            for si in range(nsites):
                for _ in range(rng.randint(0, 4)):
                    lines.append(self.line("f.go:%d" % src_line, addr, rng.choice(self.FILLER)))
                    addr += 3
                    src_line += 1
                kinds = ["raw", "raw", "call", "call", "xorl"] + (["nomov_raw", "nomov_call"] if clean else [])
                kind = rng.choice(kinds)
                if pending_decoy and si == 0 and clean and rng.random() < 0.8:
                    kind = rng.choice(["nomov_raw", "nomov_call"])     # the decoy in front of the marker must not be used
                short = rng.choice([None] * 8 + [3, 2, 1, 0])
                loc = "f.go:%d" % (src_line + 5)
                if kind in ("raw", "nomov_raw", "xorl"):
                    site_text = rng.choice(raw_ins)
                else:
                    site_text = "CALL " + rng.choice(SYSCALL_FUNCS)
                site_line = self.line(loc, addr + 40, site_text, short)
                fields = site_line.split()
                location = fields[0] if fields else ""
                function = " ".join(fields[3:]) if len(fields) > 3 else ""
                is_site = not (kind in ("raw", "nomov_raw", "xorl") and wrapper)
                exp = None
                self.count("site:" + kind + ("/wrapper" if wrapper and not is_site else ""))
                if kind in ("raw", "call"):
                    t, v, ncls = self.number()
                    if kind == "raw":
                        asm = "MOV%s $%s, %s" % (rng.choice(["L", "Q", "L", "Q", "", "W", "B", "Z"]), t, rng.choice(["AX", "AX", "BP"]))
                    else:
                        asm = "MOV%s $%s, 0(SP)" % (rng.choice(["Q", "L", "Q", ""]), t)
                    lines.append(self.line("f.go:%d" % src_line, addr, asm))
                    for _ in range(rng.randint(0, 3)):
                        lines.append(self.line("f.go:%d" % src_line, addr, rng.choice(self.FILLER)))
                    if is_site:
                        if v is None:
                            clean = False            # the unparsable operand stays in the window
                        else:
                            clean = True
                            if v in self.table:
                                exp = (v, self.table[v], caller.encode(), function.encode(), location.encode(), asm.encode())
                    else:
                        clean = False                # not a site: the MOV stays in the window
                elif kind == "xorl":
                    if rng.random() < 0.5:
                        t, v, ncls = self.number()
                        lines.append(self.line("f.go:%d" % src_line, addr, "MOVL $%s, AX" % t))
                    lines.append(self.line("f.go:%d" % src_line, addr, "XORL AX, AX"))
                    if is_site:
                        clean = True
                        if 0 in self.table:
                            exp = (0, self.table[0], caller.encode(), function.encode(), location.encode(), b"XORL AX, AX")
                    else:
                        clean = False
                # nomov_*: nothing in the window can match: no record, whatever precedes the marker
                lines.append(site_line)
                addr += 64
                src_line += 10
                if exp:
                    expected.append(exp)
                fdesc["sites"].append(dict(kind=kind, short=short, expected=bool(exp)))
            for _ in range(rng.randint(0, 2)):
                lines.append(self.line("f.go:%d" % src_line, addr, rng.choice(self.FILLER)))
            pending_decoy = False
            if rng.random() < 0.6:
                # decoy loads at the end of the function, in front of the next marker
                t = "0x%x" % rng.choice(self.known)
                lines.append(self.line("f.go:%d" % src_line, addr, rng.choice(["MOVL $%s, AX", "MOVQ $%s, 0(SP)", "MOVQ $%s, BP"]) % t))
                if rng.random() < 0.3:
                    lines.append(self.line("f.go:%d" % src_line, addr, "XORL AX, AX"))
                pending_decoy = True
                self.count("decoy")
            desc.append(fdesc)
        eol = rng.choice(["\n"] * 5 + ["\r\n"])
        text = eol.join(lines)
        if rng.random() < 0.85:
            text += eol
        self.count("eol:" + ("crlf" if eol == "\r\n" else "lf"))
        return text.encode(), expected, desc


# ------------------------------------------------------------------------------------------------ other generators
UNICODE_SPACES = [b"\xc2\x85", b"\xc2\xa0", b"\xe1\x9a\x80", b"\xe2\x80\x80", b"\xe2\x80\x8a", b"\xe2\x80\xa8", b"\xe2\x80\xa9",
                  b"\xe2\x80\xaf", b"\xe2\x81\x9f", b"\xe3\x80\x80"]
ODD_BYTES = [b"\x0b", b"\x0c", b"\r", b"\x00", b"\xff", b"\xc2", b"\xe2\x80", b"\xe2\x80\x8b", b"\xc3\xa9", b"\x1c", b"\xf0\x9f\x98\x80"]
INJECT = [b"TEXT", b"TEXTx", b"TEXT ", b"TEXT  a b", b"TEX", b"SYSCALL", b" SYSCALL", b"a SYSCALL", b"a b SYSCALL", b"a b c SYSCALL x y",
          b"INT $0x80", b"SYSENTER", b"a b c INT $0x80", b"CALL syscall.Syscall(SB)", b"a b c CALL unix.Syscall6(SB)", b"XORL AX, AX",
          b"MOVL $1, AX", b"MOVQ $1, 0(SP)", b"MOVL $0x3c, AX, BP", b"MOVQ $2, AX, 0(SP), 0(SP)", b"MOVQ $1, AX MOVQ $2, AX", b"MOVL $, AX",
          b"MOV $1, BP", b"a b c MOVQ $zz, AX", b"a b c CALL syscall.Syscall(SB) MOVQ $1, 0(SP)", b"a b c SYSCALL MOVL $2, AX", b"", b" ", b"\t"]


def mutate(rng, text):
    """a mutated listing: dropped fields, odd white space, injected short lines, cut lines, duplicated lines"""
    lines = text.split(b"\n")
    out = []
    for ln in lines:
        r = rng.random()
        if r < 0.06:
            continue
        if r < 0.14:
            f = ln.split()
            if f:
                k = rng.randrange(len(f))
                ln = b" ".join(f[:k] + f[k + 1:])
        elif r < 0.22:
            sp = rng.choice(UNICODE_SPACES + [b"\x0b", b"\x0c", b"\r", b"\xc2\xa0 "])
            ln = ln.replace(rng.choice([b"\t", b" ", b"  "]), sp)
        elif r < 0.27:
            k = rng.randint(0, len(ln))
            ln = ln[:k]
        elif r < 0.32:
            k = rng.randint(0, len(ln))
            ln = ln[:k] + rng.choice(ODD_BYTES + UNICODE_SPACES) + ln[k:]
        elif r < 0.36:
            out.append(ln)
        elif r < 0.40:
            ln = ln + b"\r"
        out.append(ln)
        if rng.random() < 0.07:
            out.append(rng.choice(INJECT))
    return b"\n".join(out)


def random_lines(rng):
    alph = b"MOVQL $0x1,()SPAXB "
    toks = [b"MOV", b"MOVQ", b"MOVL", b" $", b", 0(SP)", b", AX", b", BP", b"0x1", b"1", b"SYSCALL", b"CALL ", b"syscall.Syscall(SB)",
            b"TEXT", b" ", b"\t", b"XORL AX, AX", b"INT $0x80", b"a", b"b c"] + UNICODE_SPACES[:3]
    n = rng.randint(0, 25)
    out = []
    for _ in range(n):
        r = rng.random()
        if r < 0.3:
            out.append(bytes(rng.choice(alph) for _ in range(rng.randint(0, 30))))
        elif r < 0.8:
            out.append(b"".join(rng.choice(toks) for _ in range(rng.randint(0, 10))))
        elif r < 0.9:
            out.append(rng.choice(INJECT))
        else:
            out.append(bytes(rng.randrange(256) for _ in range(rng.randint(0, 12))).replace(b"\n", b"."))
    return rng.choice([b"\n", b"\n", b"\r\n"]).join(out) + rng.choice([b"", b"\n"])


def prim_lines(rng, n):
    """cases for the models of the library functions: R1/R2 (regexp), PI (ParseInt), F (Fields), S (Scanner)"""
    out = []
    alph = b"MOVQL $0x1,()SPAXB "
    junk = [b"", b" ", b"x.go:1 0x1 aa ", b"MOV", b"MOVQ", b"MOVQ $", b"MOV $", b", AX", b", BP", b", 0(SP)", b"$", b", ", b"AX", b"BPX", b"0(SP",
            b"\xc3\xa9", b"\xff", b"MOVLQ $1", b"MOVq $1", b"MOV\t$1"]
    for _ in range(n):
        if rng.random() < 0.4:
            s = bytes(rng.choice(alph) for _ in range(rng.randint(0, 30)))
        else:
            cap = b"".join(rng.choice([b"0x1", b"1", b"", b", AX", b", BP", b", 0(SP)", b"MOVL $2", b" ", b",", b"$", b"\xe2\x82\xac", b"\x80"])
                           for _ in range(rng.randint(0, 4)))
            core = (b"MOV" + rng.choice([b"", b"Q", b"L", b"Z", b"A", b"q", b"QL", b" "]) + rng.choice([b" $", b" $", b" $", b"$", b" ", b"  $"]) + cap
                    + rng.choice([b", AX", b", BP", b", 0(SP)", b", A", b", BX", b", 0(SP", b",AX", b""]))
            s = b"".join(rng.choice(junk) for _ in range(rng.randint(0, 3))) + core + b"".join(rng.choice(junk) for _ in range(rng.randint(0, 3)))
        out.append(rng.choice(["R1 ", "R2 "]) + hx(s))
    pchars = b"0123456789abcdefxXoObB_+-9871zZ g"
    for _ in range(n):
        r = rng.random()
        if r < 0.25:
            s = bytes(rng.choice(pchars) for _ in range(rng.randint(0, 8)))
        else:
            base = rng.choice([2, 8, 8, 10, 16])
            pre = {2: [b"0b", b"0B"], 8: [b"0", b"0o", b"0O"], 10: [b""], 16: [b"0x", b"0X"]}[base]
            digs = "0123456789abcdefABCDEF"
            nd = rng.choice([1, 2, 3, 10, 15, 16, 17, 19, 20, 21, 22, 23, 63, 64, 65])
            d = "".join(rng.choice(digs[:base] if base < 16 else digs) for _ in range(nd))
            if rng.random() < 0.3:
                k = rng.randint(0, len(d))
                d = d[:k] + "_" + d[k:]
            if rng.random() < 0.05:
                k = rng.randint(0, len(d))
                d = d[:k] + rng.choice("_89gz ") + d[k:]
            s = rng.choice([b"", b"", b"-", b"+"]) + rng.choice(pre) + d.encode()
        out.append("PI " + hx(s))
    for v in (2 ** 63 - 1, 2 ** 63, 2 ** 63 + 1, 2 ** 64 - 1, 2 ** 64, 0, 1):
        for sign in (b"", b"-", b"+"):
            for t in ("%d" % v, "0x%x" % v, "0X%X" % v, "0o%o" % v, "0%o" % v, "0b" + bin(v)[2:]):
                out.append("PI " + hx(sign + t.encode()))
    sp = UNICODE_SPACES + [b" ", b"\t", b"\n", b"\x0b", b"\x0c", b"\r", b"\xe2\x80\x8b", b"\xe2\x80\x7f", b"\xe2\x80\xa7", b"\xe2\x80\xaa", b"\xe2\x81\xa0",
                           b"\xc2", b"\xe2", b"\xe2\x80", b"\x80", b"\x85", b"\xa0", b"\xe1", b"\xe3", b"\xf0", b"\xf0\x9f\x98\x80", b"\xc0\xa0", b"\xe0\x82\x85",
                           b"\xed\xa0\x80", b"a", b"b", b"xyz", b"\xc3\xa9", b"\x1c", b"\x1f", b"\x00", b"\xe2\x80\x80\x80", b"\xf0\xe2\x80\x80", b"\xe1\x9a", b"\x9a\x80"]
    for _ in range(n):
        if rng.random() < 0.8:
            s = b"".join(rng.choice(sp) for _ in range(rng.randint(0, 10)))
        else:
            s = bytes(rng.randrange(256) for _ in range(rng.randint(0, 12)))
        out.append("F " + hx(s))
    st = [b"a", b"\n", b"\r", b"\r\n", b"bc", b"\n\n", b"\r\r\n", b""]
    for _ in range(n // 3):
        out.append("S " + hx(b"".join(rng.choice(st) for _ in range(rng.randint(0, 8)))))
    for ln in (4096, 65535, 65536):
        for post in (b"", b"\n", b"\r\n", b"\ncd\n"):
            out.append("S " + hx(b"ab\n" + b"y" * ln + post))
            out.append("S " + hx(b"y" * (ln - 1) + b"\r" + post))
    return out


def too_long(data):
    """independent of any parser: some piece between newlines has 65536 bytes or more"""
    return any(len(t) >= MAX_TOKEN for t in data.split(b"\n"))


# ------------------------------------------------------------------------------------------------ items
class Item:
    """One unit of checking: one or several ExtractSyscalls cases and the relation expected between their results."""

    def __init__(self, kind, arch, datas, modes=None, expected=None, note=None):
        self.kind = kind            # listing | text | mono | scoped
        self.arch = arch            # key of the architecture record passed to ExtractSyscalls
        self.datas = datas          # list of bytes
        self.modes = modes or ["file"] * len(datas)
        self.expected = expected    # listing: expected records
        self.note = note
        self.go = self.model = None

    def case_lines(self, prefix):
        return ["C %s.%d %s %s %s" % (prefix, i, self.arch, self.modes[i], hx(d)) for i, d in enumerate(self.datas)]

    def payload(self):
        return dict(check=self.kind, arch=self.arch, modes=self.modes, inputs_hex=[d.hex() for d in self.datas],
                    expected_records=[[e[0]] + [x.hex() for x in e[1:]] for e in self.expected] if self.expected is not None else None,
                    note=self.note)

    @staticmethod
    def from_payload(p):
        exp = None
        if p.get("expected_records") is not None:
            exp = [tuple([e[0]] + [bytes.fromhex(x) for x in e[1:]]) for e in p["expected_records"]]
        return Item(p["check"], p["arch"], [bytes.fromhex(x) for x in p["inputs_hex"]], p["modes"], exp, p.get("note"))


def property_problems(item, tables):
    """The implementation's results against the property itself (no model involved). Returns a list of strings."""
    probs = []
    parser = PARSER_OF.get(item.arch)
    table = tables.get(item.arch, {})          # the table of the architecture record that was passed in
    for i, res in enumerate(item.go):
        st, v = res
        data, mode = item.datas[i], item.modes[i]
        # the property says nothing about which architectures are supported: a record that is refused is fine
        if parser is None and st == "ERR":
            continue
        want_err = mode not in ("file", "fifo") or too_long(data)
        if st == "PANIC":
            probs.append("input %d: ExtractSyscalls panicked: %s" % (i, v))
        elif st == "ERR_WITH_VALUE":
            probs.append("input %d: an error was returned together with a partial result" % i)
        elif st == "ERR" and not want_err:
            probs.append("input %d: an error was returned for a text that can be read to the end (no line of %d bytes or more)" % (i, MAX_TOKEN))
        elif st == "OK" and want_err:
            why = ("the path is a directory / does not exist" if mode not in ("file", "fifo")
                   else "a line has %d bytes or more, the scanner cannot read the text to the end" % MAX_TOKEN)
            probs.append("input %d: a result (%d records) was returned although %s: silent truncation" % (i, len(v), why))
        elif st == "OK":
            for r in v:
                if r[0] < 0 or table.get(r[0]) != r[1]:
                    probs.append("input %d: reported syscall (%d, %r) is not an entry of the table of arch.%s (which has %r for that number)"
                                 % (i, r[0], r[1].decode("utf-8", "replace"), item.arch, table.get(r[0], b"nothing").decode("utf-8", "replace")))
                    break
    oks = [r[0] == "OK" for r in item.go]
    if item.kind == "listing" and oks[0]:
        if item.go[0][1] != item.expected:
            probs.append("the result differs from the site model the listing was generated from (expected %d records, got %d)"
                         % (len(item.expected), len(item.go[0][1])))
    if item.kind == "mono" and all(oks):
        a, ab = item.go[0][1], item.go[1][1]
        if ab[:len(a)] != a:
            probs.append("appending lines removed or changed syscalls found before: %d records for the text, %d for the extended text" % (len(a), len(ab)))
    if item.kind == "scoped" and all(oks):
        body = item.go[0][1]
        for k in range(1, len(item.go), 2):
            pre, both = item.go[k][1], item.go[k + 1][1]
            if both != pre + body:
                probs.append("the syscalls attributed to a function depend on the text in front of its marker (prefix %d)" % ((k + 1) // 2))
    return probs


def corr_problems(item):
    out = []
    for i, (g, m) in enumerate(zip(item.go, item.model)):
        if g[0] == "PANIC" and m[0] == "PANIC":
            continue
        if g != m:
            out.append(i)
    return out


# ------------------------------------------------------------------------------------------------ the check
def generate_items(rng, tier, tables):
    """one round of items (the thorough tier runs 20 rounds)"""
    q = tier == "quick"
    scale = 1
    items = []
    dist = {}
    models = {a: SiteModel(rng, a, tables[a]) for a in ("X86_64", "I386")}
    # x32 listings: x86_64 code whose syscall numbers mean something else (or nothing) in the x32 table
    x32_foreign = [n for n, name in tables["X86_64"].items() if tables.get("X32", {}).get(n) != name]
    models["X32"] = SiteModel(rng, "X86_64", tables["X86_64"], known=x32_foreign or None)

    def add(it, label):
        if it.modes == ["file"] and rng.random() < 0.04:
            # the same text handed over through a named pipe (no size, bytes arrive in pieces)
            it.modes = ["fifo"]
            label += " (through a named pipe)"
        items.append(it)
        dist[label] = dist.get(label, 0) + 1

    def arch_pick():
        return rng.choice(["X86_64", "X86_64", "X86_64", "I386", "I386"])

    # well-formed listings from the site model
    for _ in range(500 * scale):
        a = arch_pick()
        text, exp, desc = models[a].listing()
        add(Item("listing", a, [text], expected=exp), "listing/" + a)
    # long runs of sites: N unresolved ones (no number in the window), N with unknown numbers, N resolved ones - and a
    # resolvable site behind them, which must still be found (N around 128, 256, 1000)
    for n in ([100, 128, 129, 130, 255, 256, 257] if q else [100, 127, 128, 129, 130, 200, 255, 256, 257, 500, 1000, 1024, 1025, 4096]):
        for flavour in ("unresolved", "unknown-number", "resolved"):
            a = arch_pick()
            m = models[a]
            raw = RAW_INS[a][0].decode()
            known = sorted(tables[a])
            lines, exp = ["TEXT main.many(SB) /src/many.go"], []
            caller1 = b"main.many(SB) /src/many.go"
            for i in range(n):
                if flavour == "unresolved":
                    lines.append(m.line("f.go:%d" % (i + 1), 0x1000 + 8 * i, raw))
                else:
                    v = (max(known) + 1000 + i) if flavour == "unknown-number" else known[i % len(known)]
                    asm = "MOVL $0x%x, AX" % v
                    lines.append(m.line("f.go:%d" % (i + 1), 0x1000 + 8 * i, asm))
                    sl = m.line("g.go:%d" % (i + 1), 0x1004 + 8 * i, raw)
                    lines.append(sl)
                    if flavour == "resolved":
                        f = sl.split()
                        exp.append((v, tables[a][v], caller1, " ".join(f[3:]).encode(), f[0].encode(), asm.encode()))
            lines.append("TEXT main.last(SB) /src/last.go")
            v = known[len(known) // 2]
            asm = "MOVL $0x%x, AX" % v
            lines.append(m.line("h.go:1", 0x90000, asm))
            sl = m.line("h.go:2", 0x90004, raw)
            lines.append(sl)
            f = sl.split()
            exp.append((v, tables[a][v], b"main.last(SB) /src/last.go", " ".join(f[3:]).encode(), f[0].encode(), asm.encode()))
            add(Item("listing", a, [("\n".join(lines) + "\n").encode()], expected=exp), "listing/many-%s" % flavour)
    # the same text under an architecture that shares the parser / is not supported
    for _ in range(12 * scale):
        text, exp, desc = models["X32"].listing()
        add(Item("text", "X32", [text], note="X32 has the audit id of X86_64 but another table; the sites use numbers whose x86_64 entry is not an x32 entry (e.g. 13)"),
            "text/X32")
        text, exp, desc = models["X86_64"].listing()
        add(Item("text", rng.choice(["ARM", "AARCH64", "MIPS", "PPC64LE", "S390X"]), [text]), "text/unsupported-arch")
    # mutated and arbitrary texts
    for _ in range(350 * scale):
        a = arch_pick()
        text, exp, desc = models[a].listing()
        add(Item("text", a, [mutate(rng, text)]), "text/mutated")
    for _ in range(250 * scale):
        add(Item("text", arch_pick(), [random_lines(rng)]), "text/random-lines")
    # very long lines: at the start, in the middle, at the end; with and without final newline, with \r
    long_specs = [(n, pos, tail) for n in (65534, 65535, 65536, 65537, 200000) for pos in ("start", "middle", "end")
                  for tail in (b"", b"\n", b"\r\n")]
    if q:
        long_specs = rng.sample(long_specs, 20) + [(65535, "middle", b"\n"), (65536, "middle", b"\n"), (65536, "end", b""), (65535, "end", b"")]
    for (n, pos, tail) in long_specs:
        a = arch_pick()
        text, exp, desc = models[a].listing()
        if not text.endswith(b"\n"):
            text += b"\n"
        fill = rng.choice([b"x", b" ", b"MOVQ $1, AX ", b"a b c SYSCALL "])
        body = (fill * (n // len(fill) + 1))[:n - (1 if tail == b"\r\n" else 0)]     # the \r counts
        longline = body + tail
        cut = text.rfind(b"\n", 0, len(text) // 2) + 1
        data = {"start": longline + (b"" if tail else b"\n") + text, "middle": text[:cut] + longline + (b"" if tail else b"\n") + text[cut:],
                "end": text + longline}[pos]
        add(Item("text", a, [data], note="line of %d bytes at the %s" % (n, pos)), "text/long-line-%d" % n)
    # read failures: a directory, a missing file
    for a in ("X86_64", "I386", "X32", "ARM"):
        add(Item("text", a, [b""], modes=["dir"]), "text/directory")
        add(Item("text", a, [b""], modes=["noent"]), "text/missing-file")
    # truncated listings: every kind of cut position
    for _ in range(40 * scale):
        a = arch_pick()
        text, exp, desc = models[a].listing()
        cuts = set()
        for needle in (b"\n", b"TEXT", b"SYSCALL", b"CALL", b"MOV", b"$", b", ", b"\t", b"0x", b"INT", b"AX"):
            pos = [i for i in range(len(text)) if text.startswith(needle, i)]
            if pos:
                p = rng.choice(pos)
                cuts.update([p, p + 1, p + len(needle)])
        cuts.update(rng.randint(0, len(text)) for _ in range(4))
        for c in sorted(cuts):
            if c <= len(text):
                t = text[:c]
                if c == 0 or t.endswith(b"\n"):
                    add(Item("mono", a, [t, text], note="listing truncated at a line boundary vs the whole listing"), "mono/truncated-at-line")
                else:
                    add(Item("text", a, [t], note="listing truncated inside a line"), "text/truncated-in-line")
    # prefix monotonicity: appending functions / lines
    for _ in range(120 * scale):
        a = arch_pick()
        t1, _, _ = models[a].listing()
        t2, _, _ = models[a].listing()
        if not t1.endswith(b"\n"):
            t1 += b"\r\n" if b"\r\n" in t1 else b"\n"
        if rng.random() < 0.4:
            t2 = mutate(rng, t2)
        if rng.random() < 0.3:
            t1 = mutate(rng, t1) + b"\n"
        add(Item("mono", a, [t1, t1 + t2]), "mono/appended")
    # function scoping: the same functions behind different prefixes
    for _ in range(100 * scale):
        a = arch_pick()
        body, _, _ = models[a].listing()
        if rng.random() < 0.3:
            # the function starts with an unusual marker line (every line beginning with TEXT is one: bare, with trailing
            # blanks, glued to other text) followed by a site that has no number load of its own
            raw = b"SYSCALL" if a == "X86_64" else rng.choice([b"INT $0x80", b"SYSENTER"])
            site = rng.choice([b"  f.go:9\t0x9\t0f05\t" + raw + b"\t\n", b"  f.go:9\t0x9\te8\tCALL syscall.Syscall(SB)\t\n"])
            body = rng.choice([b"TEXT", b"TEXT ", b"TEXT\t", b"TEXT  ", b"TEXTURE", b"TEXT\r"]) + b"\n" + site + body
        datas = [body]
        for _k in range(2):
            pre, _, _ = models[a].listing()
            if not pre.endswith(b"\n"):
                pre += b"\n"
            r = rng.random()
            if r < 0.35:
                # leave an unfinished window in front of the marker: number loads without a site
                pre += rng.choice([b"  f.go:1\t0x1\t00\tMOVL $0x1, AX\n", b"  f.go:1\t0x1\t00\tMOVQ $0x2, 0(SP)\n", b"  f.go:1\t0x1\t00\tXORL AX, AX\n",
                                   b"  f.go:1\t0x1\t00\tMOVL $0x1, AX\n  f.go:2\t0x2\t00\tXORL AX, AX\n"])
            elif r < 0.5:
                pre = mutate(rng, pre) + b"\n"
            elif r < 0.6:
                pre = rng.choice([b"", b"MOVL $0x3c, AX\n", b"TEXT syscall.Syscall(SB) x.s\nMOVL $0x3c, AX\n", b"XORL AX, AX\n"])
            datas += [pre, pre + body]
        add(Item("scoped", a, datas), "scoped")
    sm_stats = {}
    for a, m in models.items():
        for k, v in m.stats.items():
            sm_stats[k] = sm_stats.get(k, 0) + v
    return items, dist, sm_stats


def evaluate(ctx, runner, items):
    lines = []
    for k, it in enumerate(items):
        lines += it.case_lines("i%d" % k)
    go, mo = runner.run(lines)
    pos = 0
    for it in items:
        n = len(it.datas)
        it.go = [parse_result(x) for x in go[pos:pos + n]]
        it.model = [parse_result(x) for x in mo[pos:pos + n]]
        pos += n
    return len(lines)


def report(ctx, runner, items, already_bad=0):
    """Violations for the items already evaluated. Returns (ndiff, nbad)."""
    nbad = ndiff = 0
    rep_bad = rep_diff = sum(1 for _ in ctx.violations)
    for it in items:
        it.probs = property_problems(it, runner.tables)
    # the smallest failing inputs are reported (they make the most readable replays)
    for it in sorted(items, key=lambda x: sum(len(d) for d in x.datas)):
        probs = it.probs
        if probs:
            nbad += 1
            if rep_bad < 3:
                pl = it.payload()
                pl.update(what="disasm.ExtractSyscalls violates C16 on this input: " + "; ".join(probs[:4]),
                          actual=[show_recs(r) for r in it.go], expected=("site model: " + repr(show_recs(("OK", it.expected)))) if it.expected is not None else "see 'what'",
                          inputs_text=[d[:1500].decode("utf-8", "replace") for d in it.datas])
                p = ctx.violation("counterexample", pl, True)
                rewrite_with_replay_cmd(ctx, p)
                rep_bad += 1
    for it in sorted(items, key=lambda x: sum(len(d) for d in x.datas)):
        d = corr_problems(it)
        if d:
            ndiff += 1
            if rep_diff < 3 and nbad == 0 and already_bad == 0:
                i = d[0]
                pl = it.payload()
                pl.update(stream="disasm listings (C16)", what="correspondence: the executable model and disasm.ExtractSyscalls differ on input %d; the implementation's result does not violate the property's relations" % i,
                          model_result=show_recs(it.model[i]), go_result=show_recs(it.go[i]),
                          inputs_text=[x[:1500].decode("utf-8", "replace") for x in it.datas])
                p = ctx.violation("correspondence", pl, False)
                rewrite_with_replay_cmd(ctx, p)
                rep_diff += 1
    return ndiff, nbad


def check_C16(ctx, replay=None):
    rng = random.Random(ctx.seed * 1000003 + 16)
    gen, ok = setup(ctx, "C16.v", C16_THEOREMS)
    if not ok:
        return
    runner = Runner(ctx)
    if replay:
        if replay.get("prim_case"):
            runner.run([replay["prim_case"]])
            if runner.table_changes:
                p = ctx.violation("counterexample", dict(what="disasm.ExtractSyscalls changed the syscall tables of package arch", prim_case=replay["prim_case"],
                                                         changes=runner.table_changes[0]["changes"]), True)
                rewrite_with_replay_cmd(ctx, p)
            else:
                ctx.log("replay: the tables of package arch are unchanged after this listing")
            return
        if replay.get("prim_line"):
            go, mo = runner.run([replay["prim_line"]])
            if go != mo:
                p = ctx.violation("correspondence", dict(stream="library models (C16)", prim_line=replay["prim_line"], go_result=go[0][:2000], model_result=mo[0][:2000],
                                                         what="the model of a Go library function differs from the library"), False)
                rewrite_with_replay_cmd(ctx, p)
            else:
                ctx.log("replay: model and library agree: %s" % go[0][:200])
            return
        if "inputs_hex" not in replay:
            ctx.log("replay file has no input (broken obligation): re-running the proof step only")
            finish_with_proof_status(ctx, 0, "C16 theorems over the disassembly-parser model")
            return
        items = [Item.from_payload(replay)]
        evaluate(ctx, runner, items)
        ndiff, nbad = report(ctx, runner, items)
        ctx.log("replay: implementation %s; model %s; property problems: %s" % ([r[0] for r in items[0].go], [r[0] for r in items[0].model], items[0].probs or "none"))
        return
    rounds = 1 if ctx.tier == "quick" else 20
    ncases = ndiff = nbad = 0
    dist, sm_stats, outcome, rec_hist = {}, {}, {}, {}
    nontrivial = set()
    sample = []

    def acc(d, k, v=1):
        d[k] = d.get(k, 0) + v

    def tables_intact():
        nonlocal nbad
        if runner.table_changes and nbad == 0:
            tc = runner.table_changes[0]
            nbad += 1
            p = ctx.violation("counterexample", dict(
                what="disasm.ExtractSyscalls changed the syscall tables of package arch (shared by every policy compiled in the process afterwards)",
                changes=tc["changes"], prim_case=tc["case"], cases_in_process=tc["cases_in_process"],
                input_text=unhx(tc["case"].split(" ")[4]).decode("utf-8", "replace")[:3000] if tc["case"] else None), True)
            rewrite_with_replay_cmd(ctx, p)

    for rnd in range(rounds):
        items, d1, s1 = generate_items(rng, ctx.tier, runner.tables)
        ncases += evaluate(ctx, runner, items)
        nd, nb = report(ctx, runner, items, already_bad=nbad)
        ndiff += nd
        nbad += nb
        for k, v in d1.items():
            acc(dist, k, v)
        for k, v in s1.items():
            acc(sm_stats, k, v)
        for it in items:
            for r in it.go:
                acc(outcome, r[0])
                if r[0] == "OK":
                    acc(rec_hist, str(len(r[1])) if len(r[1]) < 5 else "5+")
            if it.kind == "listing" and it.go[0][0] == "OK" and it.go[0][1] and it.go[0][1] == it.expected and it.go[0] == it.model[0]:
                nontrivial.add(hashlib.sha256(it.datas[0]).hexdigest())
        if not sample:
            for it in items[:2]:
                sample.append(dict(arch=it.arch, kind=it.kind, text=it.datas[0][:400].decode("utf-8", "replace"), result=show_recs(it.go[0])))
        if rounds > 1:
            ctx.log("round %d/%d: %d ExtractSyscalls calls so far, %d differences, %d counterexamples" % (rnd + 1, rounds, ncases, ndiff, nbad))
    tables_intact()
    # the models of the library functions against the library
    plines = prim_lines(rng, 1500 if ctx.tier == "quick" else 30000)
    pgo, pmo = runner.run(plines)
    pdiff = 0
    for ln, g, m in zip(plines, pgo, pmo):
        if g != m:
            pdiff += 1
            if pdiff <= 2 and nbad == 0:
                p = ctx.violation("correspondence", dict(stream="library models (C16)", prim_line=ln, go_result=g[:2000], model_result=m[:2000],
                                                         input_text=unhx(ln.split(" ")[1])[:300].decode("utf-8", "replace"),
                                                         what="the model of a Go library function (R1/R2 regexp, PI ParseInt, F Fields, S Scanner) differs from the library"), False)
                rewrite_with_replay_cmd(ctx, p)
    # coverage
    prim_kinds = {}
    for ln, g in zip(plines, pgo):
        k = ln.split(" ")[0] + (":no-match/error" if g.endswith(" none") or g.endswith(" err") else "")
        prim_kinds[k] = prim_kinds.get(k, 0) + 1
    ctx.coverage.update(dict(
        evaluations=ncases + len(plines), extract_calls=ncases, library_cases=len(plines),
        distinct_nontrivial=len(nontrivial),
        rule="files generated by the seeded generator and passed to disasm.ExtractSyscalls (built from the repository): listings from a site model "
             "(functions x sites x decoys before the marker; raw, call and XORL sites; numbers in hex/decimal/octal/binary/underscore/negative/overflow/garbage form; "
             "unknown numbers; short site lines; LF and CRLF), mutated and random lines, lines of 65534..65537 and 200000 bytes, truncations at every kind of position, "
             "directory and missing file; each result compared with the extracted model record by record and with the property (site-model oracle, no panic, error iff "
             "unreadable, prefix monotonicity, scoping, table membership). non-trivial = distinct well-formed listings for which the implementation returned at least "
             "one record, equal to both the site-model oracle and the model's result",
        traces_validated_against_impl=ncases + len(plines),
        correspondence_differences=ndiff + pdiff, counterexamples=nbad,
        input_distribution=dict(items=dist, site_model=sm_stats, implementation_outcomes=outcome, records_per_result=rec_hist, library_cases=prim_kinds),
        samples=sample,
        trusted_base=C16_TRUSTED_BASE,
    ))
    ctx.assumptions += [a for a in C16_ASSUMPTIONS if a not in ctx.assumptions]
    finish_with_proof_status(ctx, nbad, "C16 theorems over the disassembly-parser model")


CHECKS = {"C16": check_C16}
